// C39 monitor: INI configuration write/read round trips.
// usage: ini_roundtrip gen  <seed> <count>     (a) config built through the public constructors
//        ini_roundtrip text <seed> <count>     (b) random texts: read, write, read again
//        ini_roundtrip file <path>             (b) on one given text (replay / fuzz artifacts)
#include <csignal>
#include <cstdio>
#include <cstdlib>
#include <cstring>
#include <fstream>
#include <map>
#include <sstream>
#include <string>
#include <vector>
#include <unistd.h>
#include "abg-ini.h"

using std::string;
using std::vector;
using namespace abigail::ini;

static unsigned long long g_rng;
static unsigned
rnd()
{
  g_rng ^= g_rng << 13; g_rng ^= g_rng >> 7; g_rng ^= g_rng << 17;
  return (unsigned) (g_rng >> 11);
}

static string g_cur;

static string
esc(const string& s)
{
  string r = "\"";
  char b[8];
  for (size_t i = 0; i < s.size(); ++i)
    {
      unsigned char c = s[i];
      if (c == '\n') r += "\\n";
      else if (c == '\t') r += "\\t";
      else if (c < 0x20 || c >= 0x7f || c == '"') { snprintf(b, sizeof b, "\\x%02x", c); r += b; }
      else r += c;
    }
  return r + "\"";
}

static void
on_fatal(int sig)
{
  const char* p = sig == SIGALRM ? "VERIF-HANG " : "VERIF-CURRENT ";
  string e = esc(g_cur);
  ssize_t r = write(2, p, strlen(p));
  r = write(2, e.c_str(), e.size());
  r = write(2, "\n", 1);
  (void) r;
  if (sig == SIGALRM) _exit(3);
  signal(sig, SIG_DFL);
}

struct stats
{
  unsigned long long evals, nontrivial, sections, properties, tuples, lists;
  std::map<string, unsigned long long> vcount;
  std::map<string, string> witness;
  stats() : evals(0), nontrivial(0), sections(0), properties(0), tuples(0), lists(0) {}
  void v(const string& key, const string& w)
  {
    if (!vcount[key]++)
      witness[key] = w;
  }
};
static stats S;

// ---- structural description through the public getters only
static void
describe_value(const property_value_sptr& v, std::ostringstream& o)
{
  if (!v) { o << "<nil>"; return; }
  if (string_property_value_sptr s = is_string_property_value(v))
    o << "S(" << esc(s->as_string()) << ")";
  else if (list_property_value_sptr l = is_list_property_value(v))
    {
      o << "L(";
      for (size_t i = 0; i < l->get_content().size(); ++i)
	o << (i ? "," : "") << esc(l->get_content()[i]);
      o << ")";
    }
  else if (tuple_property_value_sptr t = is_tuple_property_value(v))
    {
      o << "T(";
      for (size_t i = 0; i < t->get_value_items().size(); ++i)
	{
	  if (i) o << ",";
	  describe_value(t->get_value_items()[i], o);
	}
      o << ")";
    }
  else
    o << "<?>";
}

static string
describe(const config::sections_type& secs)
{
  std::ostringstream o;
  for (size_t i = 0; i < secs.size(); ++i)
    {
      o << "[" << esc(secs[i]->get_name()) << "]";
      const config::properties_type& ps = secs[i]->get_properties();
      for (size_t k = 0; k < ps.size(); ++k)
	{
	  o << " " << esc(ps[k]->get_name()) << "=";
	  if (simple_property_sptr sp = is_simple_property(ps[k]))
	    {
	      if (sp->has_empty_value()) o << "S(\"\")";
	      else describe_value(sp->get_value(), o);
	    }
	  else if (list_property_sptr lp = is_list_property(ps[k]))
	    describe_value(lp->get_value(), o);
	  else if (tuple_property_sptr tp = is_tuple_property(ps[k]))
	    describe_value(tp->get_value(), o);
	  else o << "<?>";
	}
      o << ";";
    }
  return o.str();
}

// ---- (a) generated configurations
static const char NAME_CHARS[] = "abcxyz_019.-*+/()<>:!?@$%^&|~'\"";
// '=' '[' ']' are INI syntax characters (accepted inside a value by the reader but
// not as its first character); they are left out of the documented value alphabet.
static const char VALUE_CHARS[] = "abcxyz_019.-*+/()<>:!?@$%^&|~'\" ";

static string
gen_word(const char* alphabet, int minlen, int maxlen, bool allow_inner_space)
{
  int n = minlen + rnd() % (maxlen - minlen + 1);
  size_t L = strlen(alphabet);
  string s;
  for (int i = 0; i < n; ++i)
    {
      char c = alphabet[rnd() % L];
      if (c == ' ' && (!allow_inner_space || i == 0 || i == n - 1))
	c = 'w';
      s += c;
    }
  return s;
}

// list_property_value has an implicit destructor over an incomplete priv type, so
// client code can only own it through the (virtual) base class destructor.
static property_value_sptr
make_list(const vector<string>& vals)
{
  property_value* raw = new list_property_value(vals);
  return property_value_sptr(raw);
}

// The textual form cannot tell {a, b} (two strings) from {a,b} (one list): two
// adjacent scalar items of a tuple are read back as one list.  Such tuples are
// generated only when g_allow_adjacent is set, and are keyed separately.
static bool g_allow_adjacent = false;
static bool g_has_adjacent = false;

static property_value_sptr
gen_tuple(int depth)
{
  vector<property_value_sptr> items;
  int n = rnd() % 4;
  bool prev_scalar = false;
  for (int i = 0; i < n; ++i)
    {
      int k = rnd() % 4;
      if (prev_scalar && k != 0)
	{
	  if (g_allow_adjacent) g_has_adjacent = true;
	  else k = 0;
	}
      if (k == 0 && depth >= 3)
	break;
      prev_scalar = (k != 0);
      if (k == 0 && depth < 3)
	items.push_back(gen_tuple(depth + 1));
      else if (k == 1)
	{
	  vector<string> vals;
	  int m = 2 + rnd() % 3;
	  for (int j = 0; j < m; ++j) vals.push_back(gen_word(VALUE_CHARS, 1, 6, true));
	  items.push_back(make_list(vals));
	  ++S.lists;
	}
      else
	items.push_back(property_value_sptr(new string_property_value(gen_word(VALUE_CHARS, 1, 6, true))));
    }
  ++S.tuples;
  return property_value_sptr(new tuple_property_value(items));
}

static void
check_gen()
{
  config::sections_type secs;
  int ns = 1 + rnd() % 4;
  g_allow_adjacent = (rnd() % 4 == 0);
  g_has_adjacent = false;
  for (int s = 0; s < ns; ++s)
    {
      config::properties_type props;
      int np = 1 + rnd() % 5;
      for (int p = 0; p < np; ++p)
	{
	  string name = gen_word(NAME_CHARS, 1, 8, false);
	  int kind = rnd() % 5;
	  if (kind == 0)
	    props.push_back(property_sptr(new simple_property(name)));	// empty value
	  else if (kind == 1)
	    {
	      vector<string> vals;
	      int m = 2 + rnd() % 4;
	      for (int j = 0; j < m; ++j) vals.push_back(gen_word(VALUE_CHARS, 1, 8, true));
	      list_property_value_sptr lv = is_list_property_value(make_list(vals));
	      props.push_back(property_sptr(new list_property(name, lv)));
	      ++S.lists;
	    }
	  else if (kind == 2)
	    {
	      tuple_property_value_sptr tv = is_tuple_property_value(gen_tuple(0));
	      props.push_back(property_sptr(new tuple_property(name, tv)));
	    }
	  else
	    {
	      string_property_value_sptr sv(new string_property_value(gen_word(VALUE_CHARS, 1, 10, true)));
	      props.push_back(property_sptr(new simple_property(name, sv)));
	    }
	  ++S.properties;
	}
      string sname = gen_word("abcxyz_019.-*+/(){}<>:!?@$%^&|~'\"=, ", 1, 10, true);
      secs.push_back(config::section_sptr(new config::section(sname, props)));
      ++S.sections;
    }
  config conf;
  conf.set_sections(secs);
  string before = describe(conf.get_sections());
  g_cur = "gen:" + before;
  std::ostringstream out;
  alarm(30);
  bool wok = write_config(conf, out);
  std::istringstream in(out.str());
  config_sptr back = read_config(in);
  alarm(0);
  ++S.evals;
  ++S.nontrivial;
  if (!wok) { S.v("gen:write-failed", before); return; }
  if (!back) { S.v("gen:read-back-failed", before + " text=" + esc(out.str())); return; }
  string after = describe(back->get_sections());
  if (after != before)
    {
      // classify by first differing feature
      string f = "other";
      if (g_has_adjacent) f = "tuple-with-adjacent-scalar-items";
      else if (back->get_sections().size() != secs.size()) f = "section-count";
      else
	{
	  size_t i = 0;
	  while (i < before.size() && i < after.size() && before[i] == after[i]) ++i;
	  size_t j = before.rfind("=", i);
	  if (j != string::npos && j + 1 < before.size())
	    f = string("value-kind-") + before[j + 1];
	}
      S.v("gen:roundtrip-differs:" + f, "config " + before + " written as " + esc(out.str()) + " read back as " + after);
    }
}

// ---- (b) random texts
static const char* TEXT_TOKENS[] = {
  "[", "]", "{", "}", "=", ",", ";", "#", "\\", "\n", " ", "\t", "a", "b", "foo", "name", "_", "1",
  "[sec]\n", "p = v\n", "p = a, b\n", "p = {a, {b, c}}\n", "p\n", " = ", "\\;", "\\#", "\\\\", "\\\n", "\\t",
  "\\[", "\\]", "\\{", "\\,", "x y", "\n\n", "[s]", "q=", "{}", "*", "^a.*$", "\\0", "\\=",
};
static const int NTEXT = sizeof(TEXT_TOKENS) / sizeof(TEXT_TOKENS[0]);

// Does the string (as obtained from the first read) contain something the
// non-escaping writer cannot represent?  kind: 0 section name, 1 property name, 2 value.
static bool
needs_escaping(const string& v, int kind)
{
  for (size_t i = 0; i < v.size(); ++i)
    {
      char c = v[i];
      if (c == '\\' || c == '\n' || c == ';' || c == '#')
	return true;
      if (kind == 0 && (c == '[' || c == ']'))
	return true;
      if (kind == 1 && (c == '[' || c == ']' || c == '{' || c == '}' || c == '=' || c == ',' || c == ' ' || c == '\t'))
	return true;
      if (kind == 2 && (c == '{' || c == '}' || c == ','))
	return true;
      if (kind == 2 && i == 0 && (c == '[' || c == ']' || c == '='))
	return true;
      if (kind == 2 && (i == 0 || i + 1 == v.size()) && (c == ' ' || c == '\t'))
	return true;
    }
  return false;
}

static bool
value_needs_escaping(const property_value_sptr& v, bool& adjacent)
{
  if (!v) return false;
  if (string_property_value_sptr s = is_string_property_value(v))
    return needs_escaping(s->as_string(), 2);
  if (list_property_value_sptr l = is_list_property_value(v))
    {
      for (size_t i = 0; i < l->get_content().size(); ++i)
	if (needs_escaping(l->get_content()[i], 2)) return true;
      return false;
    }
  if (tuple_property_value_sptr t = is_tuple_property_value(v))
    {
      bool prev_scalar = false, r = false;
      for (size_t i = 0; i < t->get_value_items().size(); ++i)
	{
	  const property_value_sptr& it = t->get_value_items()[i];
	  bool scalar = !is_tuple_property_value(it);
	  if (scalar && prev_scalar) adjacent = true;
	  prev_scalar = scalar;
	  if (value_needs_escaping(it, adjacent)) r = true;
	}
      return r;
    }
  return false;
}

static bool
config_needs_escaping(const config::sections_type& secs, bool& adjacent)
{
  bool r = false;
  for (size_t i = 0; i < secs.size(); ++i)
    {
      if (needs_escaping(secs[i]->get_name(), 0)) r = true;
      const config::properties_type& ps = secs[i]->get_properties();
      for (size_t k = 0; k < ps.size(); ++k)
	{
	  if (needs_escaping(ps[k]->get_name(), 1)) r = true;
	  property_value_sptr v;
	  if (simple_property_sptr sp = is_simple_property(ps[k]))
	    { if (!sp->has_empty_value()) v = sp->get_value(); }
	  else if (list_property_sptr lp = is_list_property(ps[k])) v = lp->get_value();
	  else if (tuple_property_sptr tp = is_tuple_property(ps[k])) v = tp->get_value();
	  if (value_needs_escaping(v, adjacent)) r = true;
	}
    }
  return r;
}

static void
check_text(const string& text)
{
  g_cur = "text:" + text;
  ++S.evals;
  alarm(30);
  std::istringstream in(text);
  config::sections_type s1;
  bool ok1 = read_sections(in, s1);
  (void) ok1;
  string d1 = describe(s1);
  std::ostringstream out;
  write_sections(s1, out);
  std::istringstream in2(out.str());
  config::sections_type s2;
  read_sections(in2, s2);
  alarm(0);
  string d2 = describe(s2);
  if (!s1.empty()) ++S.nontrivial;
  S.sections += s1.size();
  if (d1 != d2)
    {
      // Classification only selects the key; every difference is reported.
      string f = "other";
      bool adjacent = false;
      if (config_needs_escaping(s1, adjacent)) f = "content-needs-escaping-on-write";
      else if (adjacent) f = "tuple-with-adjacent-scalar-items";
      else if (s1.size() != s2.size()) f = "section-count";
      S.v("text:reread-differs:" + f, "text " + esc(text) + " reads as " + d1 + "; rewritten as " + esc(out.str()) + " reads as " + d2);
    }
}

static string
gen_text()
{
  string t;
  int style = rnd() % 3;
  int n = 1 + rnd() % 24;
  if (style == 0)
    for (int i = 0; i < n; ++i) t += TEXT_TOKENS[rnd() % NTEXT];
  else
    {
      // mostly well-formed: sections with properties, then byte mutations
      int ns = 1 + rnd() % 3;
      for (int s = 0; s < ns; ++s)
	{
	  t += "[" + gen_word("abc_ ", 1, 6, true) + "]\n";
	  int np = 1 + rnd() % 4;
	  for (int p = 0; p < np; ++p)
	    {
	      t += "  " + gen_word("abc_", 1, 5, false);
	      int k = rnd() % 5;
	      if (k == 0) t += "\n";
	      else if (k == 1) t += " = " + gen_word("abc .*^$", 1, 6, true) + ", " + gen_word("abc", 1, 3, false) + "\n";
	      else if (k == 2) t += " = {" + gen_word("abc", 1, 3, false) + ", {" + gen_word("abc", 1, 3, false) + "," + gen_word("abc", 1, 3, false) + "}}\n";
	      else t += " = " + gen_word("abc .*^$()|", 1, 8, true) + "\n";
	    }
	}
      if (style == 2)
	{
	  int muts = 1 + rnd() % 4;
	  for (int m = 0; m < muts && !t.empty(); ++m)
	    {
	      size_t pos = rnd() % t.size();
	      int op = rnd() % 3;
	      if (op == 0) t.erase(pos, 1);
	      else if (op == 1) t.insert(pos, TEXT_TOKENS[rnd() % NTEXT]);
	      else t[pos] = "[]{}=,;#\\\n a"[rnd() % 12];
	    }
	}
    }
  return t;
}

int
main(int argc, char** argv)
{
  signal(SIGABRT, on_fatal);
  signal(SIGSEGV, on_fatal);
  signal(SIGALRM, on_fatal);
  if (argc < 3) return 2;
  string mode = argv[1];
  if (mode == "file")
    {
      std::ifstream f(argv[2], std::ios::binary);
      std::stringstream ss;
      ss << f.rdbuf();
      check_text(ss.str());
    }
  else
    {
      if (argc != 4) return 2;
      g_rng = 0x9E3779B97F4A7C15ull ^ (strtoull(argv[2], 0, 10) * 0xD1B54A32D192ED03ull);
      if (!g_rng) g_rng = 1;
      unsigned long long count = atoll(argv[3]);
      for (unsigned long long c = 0; c < count; ++c)
	if (mode == "gen") check_gen();
	else check_text(gen_text());
    }
  for (std::map<string, unsigned long long>::iterator i = S.vcount.begin(); i != S.vcount.end(); ++i)
    printf("V %s count=%llu witness=%s\n", i->first.c_str(), i->second, S.witness[i->first].c_str());
  printf("SUMMARY evals=%llu nontrivial=%llu sections=%llu properties=%llu tuples=%llu lists=%llu\n",
	 S.evals, S.nontrivial, S.sections, S.properties, S.tuples, S.lists);
  return 0;
}
