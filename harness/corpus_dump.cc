// Public-API dumper used by C17 (and others): what does the corpus expose?
// usage: corpus_dump <elf-or-abixml> [--load-all-types]
// Output: one line per item
//   F <symbol-id> <decl name> aliases=<a,b,...>
//   V <symbol-id> <decl name> aliases=<...>
//   UF <symbol-id>            (function symbol not referenced by debug info)
//   UV <symbol-id>
//   SF <symbol-id> / SV <symbol-id>   (sorted symbol tables)
//   STATUS <n>
#include <cstring>
#include <iostream>
#include <string>
#include <vector>
#include "abg-corpus.h"
#include "abg-dwarf-reader.h"
#include "abg-reader.h"
#include "abg-tools-utils.h"

using namespace abigail;
using std::cout;
using std::string;
using std::vector;

static string
aliases_of(const elf_symbol_sptr& sym)
{
  string r;
  if (!sym) return r;
  elf_symbol_sptr main = sym->get_main_symbol();
  if (!main) return r;
  for (elf_symbol_sptr a = main; a; a = a->get_next_alias())
    {
      if (a.get() != main.get() && a->get_id_string() == main->get_id_string() && a == main) break;
      if (!r.empty()) r += ",";
      r += a->get_id_string();
      if (a->get_next_alias() == main || a->get_next_alias().get() == main.get()) break;
    }
  return r;
}

int
main(int argc, char** argv)
{
  if (argc < 2) return 2;
  bool load_all = argc > 2 && !strcmp(argv[2], "--load-all-types");
  ir::environment_sptr env(new ir::environment);
  corpus_sptr corp;
  tools_utils::file_type t = tools_utils::guess_file_type(argv[1]);
  elf_reader::status st = elf_reader::STATUS_UNKNOWN;
  if (t == tools_utils::FILE_TYPE_ELF)
    {
      vector<char**> di_roots;
      dwarf_reader::read_context_sptr ctxt =
	dwarf_reader::create_read_context(argv[1], di_roots, env.get(), load_all);
      corp = dwarf_reader::read_corpus_from_elf(*ctxt, st);
    }
  else if (t == tools_utils::FILE_TYPE_XML_CORPUS)
    {
      xml_reader::read_context_sptr ctxt = xml_reader::create_native_xml_read_context(argv[1], env.get());
      corp = xml_reader::read_corpus_from_input(*ctxt);
      st = elf_reader::STATUS_OK;
    }
  cout << "STATUS " << (int) st << "\n";
  if (!corp)
    {
      cout << "NOCORPUS\n";
      return 0;
    }
  for (auto f : corp->get_functions())
    {
      elf_symbol_sptr s = f->get_symbol();
      cout << "F " << (s ? s->get_id_string() : string("<nosym>")) << " " << f->get_name()
	   << " aliases=" << aliases_of(s) << "\n";
    }
  for (auto v : corp->get_variables())
    {
      elf_symbol_sptr s = v->get_symbol();
      cout << "V " << (s ? s->get_id_string() : string("<nosym>")) << " " << v->get_name()
	   << " aliases=" << aliases_of(s) << "\n";
    }
  for (auto s : corp->get_unreferenced_function_symbols())
    cout << "UF " << s->get_id_string() << "\n";
  for (auto s : corp->get_unreferenced_variable_symbols())
    cout << "UV " << s->get_id_string() << "\n";
  for (auto s : corp->get_sorted_fun_symbols())
    cout << "SF " << s->get_id_string() << "\n";
  for (auto s : corp->get_sorted_var_symbols())
    cout << "SV " << s->get_id_string() << "\n";
  return 0;
}
