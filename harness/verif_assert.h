/* Force-included (-include) into every translation unit of the verification
   builds.  abg-fwd.h defines ABG_ASSERT only #ifndef ABG_ASSERT, so defining it
   here makes every assertion failure identify itself by *function + condition*
   (stable under unrelated edits) before aborting, instead of by line number. */
#ifndef VERIF_ASSERT_H
#define VERIF_ASSERT_H
#ifdef __cplusplus
#include <cstdio>
#include <cstdlib>
#define ABG_ASSERT(cond)                                                     \
  do {                                                                       \
    bool __abg_cond__ = bool(cond);                                          \
    if (!__abg_cond__) {                                                     \
      std::fprintf(stderr, "VERIF-ABG-ASSERT function=%s cond=%s\n",         \
                   __func__, #cond);                                         \
      std::fflush(stderr);                                                   \
      std::abort();                                                          \
    }                                                                        \
  } while (false)
#endif
#endif
