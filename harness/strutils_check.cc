// C41 monitor: name / string helpers of abigail::tools_utils against reference
// implementations written from the property statement.
//
// usage: strutils_check <group> <seed> <count> <maxtokens>
// group: names | split | affix | trimlead
#include <csignal>
#include <cstdio>
#include <cstdlib>
#include <cstring>
#include <map>
#include <string>
#include <vector>
#include <unistd.h>
#include "abg-tools-utils.h"

using std::string;
using std::vector;
using namespace abigail::tools_utils;

static const char* TOKENS[] = {
  "a", "b", "_", "1", ":", "::", ",", ";", " ", "\t", "ab", "foo",
  "__anonymous_struct__", "__anonymous_union__", "__anonymous_enum__",
  "__anonymous_struct__1", "__anonymous_struct__2", "__anonymous_union__1", "__anonymous_enum__7",
  "::", "::", "a", "../", "/", ".", "\n",
};
static const int NTOK = sizeof(TOKENS) / sizeof(TOKENS[0]);

static unsigned long long g_rng;
static unsigned
rnd()
{
  g_rng ^= g_rng << 13; g_rng ^= g_rng >> 7; g_rng ^= g_rng << 17;
  return (unsigned) (g_rng >> 11);
}

static string
rand_string(int maxtok, int ntok = NTOK)
{
  int n = rnd() % (maxtok + 1);
  string s;
  for (int i = 0; i < n; ++i)
    s += TOKENS[rnd() % ntok];
  return s;
}

static string
esc(const string& s)
{
  string r = "\"";
  for (size_t i = 0; i < s.size(); ++i)
    {
      char c = s[i];
      if (c == '\t') r += "\\t";
      else if (c == '\n') r += "\\n";
      else if (c == '"') r += "\\\"";
      else r += c;
    }
  return r + "\"";
}

struct stats
{
  unsigned long long evals, nontrivial;
  std::map<string, unsigned long long> vcount;
  std::map<string, string> witness;
  stats() : evals(0), nontrivial(0) {}
  void v(const string& key, const string& w)
  {
    if (!vcount[key]++)
      witness[key] = w;
  }
};
static stats S;
static char g_cur[8192];

static void
on_alarm(int)
{
  const char* p = "VERIF-HANG ";
  ssize_t r = write(1, p, strlen(p));
  r = write(1, g_cur, strlen(g_cur));
  r = write(1, "\n", 1);
  (void) r;
  _exit(3);
}

static bool
has_anon(const string& s)
{
  return s.find("__anonymous_struct__") != string::npos
    || s.find("__anonymous_union__") != string::npos
    || s.find("__anonymous_enum__") != string::npos;
}

static void
comps(const string& s, vector<string>& out)
{
  out.clear();
  size_t pos = 0;
  for (;;)
    {
      size_t n = s.find("::", pos);
      if (n == string::npos) { out.push_back(s.substr(pos)); break; }
      out.push_back(s.substr(pos, n - pos));
      pos = n + 2;
    }
}

static string
join(const vector<string>& c)
{
  string r;
  for (size_t i = 0; i < c.size(); ++i) { if (i) r += "::"; r += c[i]; }
  return r;
}

static void
check_names()
{
  string l = rand_string(6), r;
  int style = rnd() % 4;
  if (style == 0) r = rand_string(6);
  else if (style == 1) r = l;
  else if (style == 2)
    {
      // l with one token appended / removed at the end
      r = l;
      if (rnd() % 2) r += TOKENS[rnd() % NTOK];
      else if (!r.empty()) r.erase(r.size() - 1);
    }
  else
    {
      // renumber anonymous components: documented to stay equal
      vector<string> c;
      comps(l, c);
      for (size_t i = 0; i < c.size(); ++i)
	{
	  const char* pre[] = {"__anonymous_struct__", "__anonymous_union__", "__anonymous_enum__"};
	  for (int k = 0; k < 3; ++k)
	    if (c[i].compare(0, strlen(pre[k]), pre[k]) == 0)
	      {
		char buf[16]; snprintf(buf, sizeof buf, "%u", rnd() % 100);
		c[i] = string(pre[k]) + buf;
	      }
	}
      r = join(c);
    }
  snprintf(g_cur, sizeof g_cur, "decl_names_equal(%s, %s)", esc(l).c_str(), esc(r).c_str());
  bool lr = decl_names_equal(l, r), rl = decl_names_equal(r, l);
  ++S.evals;
  string w = string(g_cur) + (lr ? " = true" : " = false") + "; swapped = " + (rl ? "true" : "false");
  if (lr != rl)
    S.v("decl_names_equal:asymmetric", w);
  if (!has_anon(l) && !has_anon(r))
    {
      if (l != r) ++S.nontrivial;
      if (lr != (l == r))
	{
	  // classify: trailing "::" on exactly one side vs anything else
	  bool lt = l.size() >= 2 && l.compare(l.size() - 2, 2, "::") == 0;
	  bool rt = r.size() >= 2 && r.compare(r.size() - 2, 2, "::") == 0;
	  string f = (lt != rt) ? "trailing-scope" : "other";
	  S.v("decl_names_equal:differs-from-string-equality:" + f, w);
	}
    }
  else if (style == 3)
    {
      ++S.nontrivial;
      if (!lr)
	S.v("decl_names_equal:renumbered-anonymous-not-equal", w);
    }
}

static bool
is_ws(char c) { return c == ' ' || c == '\t' || c == '\n' || c == '\v' || c == '\f' || c == '\r'; }

static void
check_split()
{
  string in = rand_string(10);
  const char* dsets[] = {",", ";", ",;", ":", ", ", "/"};
  string delims = dsets[rnd() % 6];
  snprintf(g_cur, sizeof g_cur, "split_string(%s, %s)", esc(in).c_str(), esc(delims).c_str());
  vector<string> got;
  split_string(in, delims, got);
  ++S.evals;
  // reference: split on any delimiter, trim, drop empties
  vector<string> ref;
  string cur;
  for (size_t i = 0; i <= in.size(); ++i)
    {
      if (i == in.size() || delims.find(in[i]) != string::npos)
	{
	  size_t b = 0, e = cur.size();
	  while (b < e && is_ws(cur[b])) ++b;
	  while (e > b && is_ws(cur[e - 1])) --e;
	  if (e > b) ref.push_back(cur.substr(b, e - b));
	  cur.clear();
	}
      else
	cur += in[i];
    }
  if (ref.size() > 1) ++S.nontrivial;
  if (got != ref)
    {
      string w = string(g_cur) + " -> [";
      for (size_t i = 0; i < got.size(); ++i) w += (i ? "," : "") + esc(got[i]);
      w += "] expected [";
      for (size_t i = 0; i < ref.size(); ++i) w += (i ? "," : "") + esc(ref[i]);
      w += "]";
      // classify
      string f = "other";
      if (got.size() == ref.size())
	{
	  bool only_trailing = true;
	  for (size_t i = 0; i < got.size(); ++i)
	    {
	      string g = got[i];
	      while (!g.empty() && is_ws(g[g.size() - 1])) g.erase(g.size() - 1);
	      if (g != ref[i]) only_trailing = false;
	    }
	  if (only_trailing) f = "trailing-whitespace-kept";
	}
      S.v("split_string:" + f, w);
    }
}

static void
check_affix()
{
  string s = rand_string(6), p;
  int style = rnd() % 5;
  if (style == 0) p = rand_string(4);
  else if (style == 1) p = s.substr(0, s.empty() ? 0 : rnd() % (s.size() + 1));	// a prefix
  else if (style == 2) p = s.substr(s.empty() ? 0 : rnd() % (s.size() + 1));		// a suffix
  else if (style == 3) p = s;
  else p = s + TOKENS[rnd() % NTOK];
  ++S.evals;
  if (!p.empty() && p.size() < s.size()) ++S.nontrivial;
  {
    snprintf(g_cur, sizeof g_cur, "string_begins_with(%s, %s)", esc(s).c_str(), esc(p).c_str());
    bool got = string_begins_with(s, p);
    bool ref = s.size() >= p.size() && memcmp(s.data(), p.data(), p.size()) == 0;
    if (got != ref)
      S.v(string("string_begins_with:") + (s.empty() && p.empty() ? "empty-empty" : "other"),
	  string(g_cur) + (got ? " = true" : " = false"));
  }
  {
    snprintf(g_cur, sizeof g_cur, "string_ends_with(%s, %s)", esc(s).c_str(), esc(p).c_str());
    bool got = string_ends_with(s, p);
    bool ref = s.size() >= p.size() && memcmp(s.data() + s.size() - p.size(), p.data(), p.size()) == 0;
    if (got != ref)
      S.v("string_ends_with:other", string(g_cur) + (got ? " = true" : " = false"));
  }
  {
    snprintf(g_cur, sizeof g_cur, "string_suffix(%s, %s)", esc(s).c_str(), esc(p).c_str());
    string out = "<unset>";
    bool got = string_suffix(s, p, out);
    bool is_prefix = s.size() >= p.size() && memcmp(s.data(), p.data(), p.size()) == 0;
    if (is_prefix && p.size() < s.size())
      {
	if (!got) S.v("string_suffix:proper-prefix-not-found", g_cur);
	else if (p + out != s) S.v("string_suffix:wrong-suffix", string(g_cur) + " -> " + esc(out));
      }
    else if (!is_prefix)
      {
	if (got) S.v("string_suffix:found-for-non-prefix", g_cur);
      }
    // s == p is recorded, not judged (doc comment is ambiguous there)
  }
}

static void
check_trimlead()
{
  // trim_leading_string: remove leading repetitions of a non-empty pattern
  const char* pats[] = {"../", "a", "::", "ab", "foo"};
  string pat = pats[rnd() % 5];
  string s;
  int reps = rnd() % 4;
  for (int i = 0; i < reps; ++i) s += pat;
  if (rnd() % 3) s += rand_string(3);
  snprintf(g_cur, sizeof g_cur, "trim_leading_string(%s, %s)", esc(s).c_str(), esc(pat).c_str());
  string ref = s;
  while (ref.size() >= pat.size() && ref.compare(0, pat.size(), pat) == 0)
    ref = ref.substr(pat.size());
  ++S.evals;
  if (reps) ++S.nontrivial;
  alarm(20);
  string got = trim_leading_string(s, pat);
  alarm(0);
  if (got != ref)
    S.v("trim_leading_string:wrong-result", string(g_cur) + " -> " + esc(got) + " expected " + esc(ref));
}

int
main(int argc, char** argv)
{
  if (argc != 5) return 2;
  string group = argv[1];
  g_rng = 0x9E3779B97F4A7C15ull ^ (strtoull(argv[2], 0, 10) * 0xD1B54A32D192ED03ull);
  if (!g_rng) g_rng = 1;
  unsigned long long count = atoll(argv[3]);
  signal(SIGALRM, on_alarm);
  setvbuf(stdout, 0, _IOLBF, 0);
  for (unsigned long long c = 0; c < count; ++c)
    {
      if (group == "names") check_names();
      else if (group == "split") check_split();
      else if (group == "affix") check_affix();
      else if (group == "trimlead") check_trimlead();
      else return 2;
    }
  for (std::map<string, unsigned long long>::iterator i = S.vcount.begin(); i != S.vcount.end(); ++i)
    printf("V %s count=%llu witness=%s\n", i->first.c_str(), i->second, S.witness[i->first].c_str());
  printf("SUMMARY evals=%llu nontrivial=%llu\n", S.evals, S.nontrivial);
  return 0;
}
