// C38 monitor: abigail::diff_utils::compute_diff against a reference O(n*m) LCS.
//
// usage: diffutils_check exh <maxlen> <alphabet> <pred> <part> <nparts>
//        diffutils_check rand <seed> <count> <maxlen> <alphabet> <pred>
// pred: 0 = default ==, 1 = "equal modulo 3" on ints (caller-supplied predicate),
//       2 = case-insensitive (values are letters, upper/lower case variants)
// Output: one line per violation key "V <key> count=<n> witness=<a>|<b> ..." and a
// final "SUMMARY ..." line.  The harness never judges, it only measures; the
// python side maps keys to findings.
#include <csignal>
#include <cstdio>
#include <cstdlib>
#include <cstring>
#include <map>
#include <string>
#include <vector>
#include <unistd.h>
#include "abg-diff-utils.h"

using namespace abigail::diff_utils;
using std::string;
using std::vector;

static int g_pred = 0;

struct elem
{
  int v;
  bool operator==(const elem& o) const { return v == o.v; }
};

struct pred_functor
{
  bool operator()(const elem& a, const elem& b) const
  {
    switch (g_pred)
      {
      case 1: return (a.v % 3) == (b.v % 3);
      case 2: return (a.v % 26) == (b.v % 26); // letter identity ignoring "case" (v/26)
      default: return a.v == b.v;
      }
  }
};

static bool eq(const elem& a, const elem& b) { return pred_functor()(a, b); }

static char g_cur[4096];

static string
render(const vector<elem>& s)
{
  string r;
  for (size_t i = 0; i < s.size(); ++i)
    {
      char buf[16];
      snprintf(buf, sizeof buf, i ? ",%d" : "%d", s[i].v);
      r += buf;
    }
  return r;
}

static void
on_abort(int)
{
  const char* p = "VERIF-CURRENT ";
  ssize_t r = write(2, p, strlen(p));
  r = write(2, g_cur, strlen(g_cur));
  r = write(2, "\n", 1);
  (void) r;
  signal(SIGABRT, SIG_DFL);
}

static int
ref_lcs(const vector<elem>& a, const vector<elem>& b)
{
  size_t n = a.size(), m = b.size();
  vector<int> prev(m + 1, 0), cur(m + 1, 0);
  for (size_t i = 1; i <= n; ++i)
    {
      for (size_t j = 1; j <= m; ++j)
	if (eq(a[i - 1], b[j - 1]))
	  cur[j] = prev[j - 1] + 1;
	else
	  cur[j] = std::max(prev[j], cur[j - 1]);
      prev.swap(cur);
    }
  return prev[m];
}

struct stats
{
  unsigned long long pairs, nontrivial, lcs_points, script_ops;
  std::map<string, unsigned long long> vcount;
  std::map<string, string> witness;
  std::map<int, unsigned long long> dhist;
  stats() : pairs(0), nontrivial(0), lcs_points(0), script_ops(0) {}
  void v(const string& key, const vector<elem>& a, const vector<elem>& b, const string& extra)
  {
    if (!vcount[key]++)
      witness[key] = "a=[" + render(a) + "] b=[" + render(b) + "] " + extra;
  }
};

static stats S;

static void
check_pair(const vector<elem>& a, const vector<elem>& b)
{
  snprintf(g_cur, sizeof g_cur, "a=[%s] b=[%s] pred=%d", render(a).c_str(), render(b).c_str(), g_pred);
  ++S.pairs;
  vector<point> lcs;
  edit_script ses;
  int ses_len = -1;
  if (g_pred == 0 && (S.pairs & 1))
    // the default-predicate entry point used by most of libabigail
    compute_diff(a.begin(), a.end(), b.begin(), b.end(), lcs, ses);
  else
    compute_diff<vector<elem>::const_iterator, pred_functor>(a.begin(), a.begin(), a.end(),
							      b.begin(), b.begin(), b.end(),
							      lcs, ses, ses_len);
  int L = ref_lcs(a, b);
  int n = a.size(), m = b.size();
  int expect = n + m - 2 * L;
  if (L > 0 && expect > 0)
    ++S.nontrivial;
  S.dhist[expect > 8 ? 9 : expect]++;
  S.script_ops += ses.length();
  S.lcs_points += lcs.size();
  char extra[256];
  snprintf(extra, sizeof extra, "LCS=%d ses.length=%d ses_len=%d lcs.size=%zu", L, ses.length(), ses_len, lcs.size());

  // (1) length
  if (ses.length() != expect)
    S.v(ses.length() > expect ? "script-too-long" : "script-too-short", a, b, extra);
  if (ses_len != -1 && ses_len != ses.length())
    S.v("ses_len-disagrees", a, b, extra);

  // (2) applying the script to A yields B (under the predicate)
  {
    vector<char> del(n, 0), ins(m, 0);
    bool ok = true;
    string why;
    for (size_t i = 0; i < ses.deletions().size(); ++i)
      {
	int x = ses.deletions()[i].index();
	if (x < 0 || x >= n || del[x]) { ok = false; why = "bad-or-duplicate-deletion"; break; }
	del[x] = 1;
      }
    vector<int> ins_point(m, -2);
    if (ok)
      for (size_t i = 0; i < ses.insertions().size() && ok; ++i)
	{
	  const insertion& I = ses.insertions()[i];
	  int p = I.insertion_point_index();
	  if (p < -1 || p >= std::max(n, 1)) { ok = false; why = "insertion-point-out-of-range"; break; }
	  for (size_t k = 0; k < I.inserted_indexes().size(); ++k)
	    {
	      unsigned y = I.inserted_indexes()[k];
	      if ((int) y >= m || ins[y]) { ok = false; why = "bad-or-duplicate-insertion"; break; }
	      ins[y] = 1;
	      ins_point[y] = p;
	    }
	}
    if (ok)
      {
	vector<int> ka, kb;
	for (int i = 0; i < n; ++i) if (!del[i]) ka.push_back(i);
	for (int j = 0; j < m; ++j) if (!ins[j]) kb.push_back(j);
	if (ka.size() != kb.size()) { ok = false; why = "kept-counts-differ"; }
	else
	  {
	    for (size_t k = 0; k < ka.size(); ++k)
	      if (!eq(a[ka[k]], b[kb[k]])) { ok = false; why = "kept-elements-differ"; break; }
	    // every inserted element lands between the right kept elements
	    if (ok)
	      for (int j = 0; j < m && ok; ++j)
		if (ins[j])
		  {
		    int keptb_before = 0, kepta_upto = 0;
		    for (size_t k = 0; k < kb.size(); ++k) if (kb[k] < j) ++keptb_before;
		    for (size_t k = 0; k < ka.size(); ++k) if (ka[k] <= ins_point[j]) ++kepta_upto;
		    if (keptb_before != kepta_upto) { ok = false; why = "insertion-misplaced"; }
		  }
	  }
      }
    if (!ok)
      S.v("script-apply:" + why, a, b, extra);
  }

  // (3) the reported common subsequence
  {
    bool inc = true, match = true, range = true;
    for (size_t i = 0; i < lcs.size(); ++i)
      {
	int x = lcs[i].x(), y = lcs[i].y();
	if (x < 0 || x >= n || y < 0 || y >= m) { range = false; break; }
	if (!eq(a[x], b[y])) match = false;
	if (i && !(lcs[i - 1].x() < x && lcs[i - 1].y() < y)) inc = false;
      }
    if (!range) S.v("lcs-point-out-of-range", a, b, extra);
    else
      {
	if (!match) S.v("lcs-point-not-a-match", a, b, extra);
	if (!inc) S.v("lcs-not-increasing", a, b, extra);
      }
    if ((int) lcs.size() < L)
      {
	const char* dclass = expect == 0 ? "d0" : expect == 1 ? "d1" : "dgt1";
	S.v(string("lcs-short:") + dclass, a, b, extra);
      }
    else if ((int) lcs.size() > L)
      S.v("lcs-too-long", a, b, extra);
  }
}

static void
nth_seq(unsigned long long idx, int K, vector<elem>& out)
{
  // enumerate sequences by length then lexicographically
  out.clear();
  int len = 0;
  unsigned long long block = 1;
  while (idx >= block)
    {
      idx -= block;
      block *= K;
      ++len;
    }
  out.resize(len);
  for (int i = len - 1; i >= 0; --i)
    {
      out[i].v = idx % K;
      idx /= K;
    }
}

static unsigned long long g_rng;
static unsigned
rnd()
{
  g_rng ^= g_rng << 13; g_rng ^= g_rng >> 7; g_rng ^= g_rng << 17;
  return (unsigned) (g_rng >> 11);
}

int
main(int argc, char** argv)
{
  signal(SIGABRT, on_abort);
  if (argc < 2) return 2;
  string mode = argv[1];
  if (mode == "exh" && argc == 7)
    {
      int maxlen = atoi(argv[2]), K = atoi(argv[3]);
      g_pred = atoi(argv[4]);
      unsigned long long part = atoll(argv[5]), nparts = atoll(argv[6]);
      unsigned long long total = 0, b = 1;
      for (int l = 0; l <= maxlen; ++l) { total += b; b *= K; }
      vector<elem> A, B;
      for (unsigned long long i = part; i < total; i += nparts)
	{
	  nth_seq(i, K, A);
	  for (unsigned long long j = 0; j < total; ++j)
	    {
	      nth_seq(j, K, B);
	      check_pair(A, B);
	    }
	}
      printf("SPACE sequences=%llu pairs_total=%llu\n", total, total * total);
    }
  else if (mode == "rand" && argc == 7)
    {
      g_rng = 0x9E3779B97F4A7C15ull ^ (strtoull(argv[2], 0, 10) * 0xD1B54A32D192ED03ull);
      if (!g_rng) g_rng = 1;
      unsigned long long count = atoll(argv[3]);
      int maxlen = atoi(argv[4]), K = atoi(argv[5]);
      g_pred = atoi(argv[6]);
      vector<elem> A, B;
      for (unsigned long long c = 0; c < count; ++c)
	{
	  int style = rnd() % 4;
	  int la = rnd() % (maxlen + 1);
	  A.resize(la);
	  for (int i = 0; i < la; ++i) A[i].v = rnd() % K;
	  if (style == 0)
	    {
	      int lb = rnd() % (maxlen + 1);
	      B.resize(lb);
	      for (int i = 0; i < lb; ++i) B[i].v = rnd() % K;
	    }
	  else
	    {
	      // B = A with a few random edits (the realistic case: mostly equal sequences)
	      B = A;
	      int edits = rnd() % (style == 1 ? 3 : 12);
	      for (int e = 0; e < edits; ++e)
		{
		  int op = rnd() % 3;
		  if (op == 0 && !B.empty())
		    B.erase(B.begin() + rnd() % B.size());
		  else if (op == 1)
		    {
		      elem x; x.v = rnd() % K;
		      B.insert(B.begin() + rnd() % (B.size() + 1), x);
		    }
		  else if (!B.empty())
		    B[rnd() % B.size()].v = rnd() % K;
		}
	    }
	  check_pair(A, B);
	}
    }
  else
    return 2;
  for (std::map<string, unsigned long long>::iterator i = S.vcount.begin(); i != S.vcount.end(); ++i)
    printf("V %s count=%llu witness=%s\n", i->first.c_str(), i->second, S.witness[i->first].c_str());
  printf("SUMMARY pairs=%llu nontrivial=%llu lcs_points=%llu script_ops=%llu dhist=", S.pairs, S.nontrivial, S.lcs_points, S.script_ops);
  for (std::map<int, unsigned long long>::iterator i = S.dhist.begin(); i != S.dhist.end(); ++i)
    printf("%d:%llu,", i->first, i->second);
  printf("\n");
  return 0;
}
