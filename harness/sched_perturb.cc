// Schedule perturbation + event recorder linked into the hook flavors.
//
// abg_verif_point() is called by libabigail (guard ABG_VERIF_HOOKS) at the
// suspension points of the worker queue.  It (1) records the event in a
// lock-free global log and (2) at *delay points* (points that sit between
// critical sections) perturbs the schedule: sched_yield, short sleeps, rare
// long stalls - selected by VERIF_SCHED_SEED.  Log-only points (3, 4, 10, 11,
// 14: inside the todo critical section or terminal) never delay.
#include <atomic>
#include <cstdio>
#include <cstdlib>
#include <cstring>
#include <sched.h>
#include <unistd.h>
#include <pthread.h>
#include <time.h>

struct verif_event
{
  unsigned long long seq;
  int thread;
  int point;
  const void* queue;
  const void* task;
};

static const size_t VERIF_MAX_EVENTS = 1u << 22;
static verif_event* g_events;
static std::atomic<unsigned long long> g_next(0);
static std::atomic<int> g_next_thread(0);
static std::atomic<int> g_enabled(-1);
static unsigned long long g_seed;
static int g_perturb = 1;
static thread_local int t_thread = -1;
static thread_local unsigned long long t_rng;

// last point seen per thread (for the deadlock watchdog of the harness)
static const int VERIF_MAX_THREADS = 256;
static std::atomic<int> g_last_point[VERIF_MAX_THREADS];
static std::atomic<unsigned long long> g_last_progress_ns(0);

static unsigned long long
now_ns()
{
  timespec ts;
  clock_gettime(CLOCK_MONOTONIC, &ts);
  return (unsigned long long) ts.tv_sec * 1000000000ull + ts.tv_nsec;
}

static void
verif_init()
{
  int expected = -1;
  if (!g_enabled.compare_exchange_strong(expected, 0))
    {
      while (g_enabled.load() == 0)
	sched_yield();
      return;
    }
  g_events = (verif_event*) calloc(VERIF_MAX_EVENTS, sizeof(verif_event));
  const char* s = getenv("VERIF_SCHED_SEED");
  g_seed = s ? strtoull(s, 0, 10) : 0;
  g_perturb = (s != 0) && !getenv("VERIF_NO_PERTURB");
  for (int i = 0; i < VERIF_MAX_THREADS; ++i)
    g_last_point[i] = 0;
  g_last_progress_ns = now_ns();
  g_enabled = 1;
}

static unsigned
t_rnd()
{
  t_rng ^= t_rng << 13; t_rng ^= t_rng >> 7; t_rng ^= t_rng << 17;
  return (unsigned) (t_rng >> 11);
}

static bool
is_delay_point(int p)
{
  switch (p)
    {
    case 1: case 2: case 5: case 6: case 7: case 8: case 9: case 12: case 13:
      return true;
    default:
      return false;
    }
}

extern "C" void
verif_log_event(int point, const void* queue, const void* task)
{
  if (g_enabled.load() != 1)
    verif_init();
  if (t_thread < 0)
    {
      t_thread = g_next_thread.fetch_add(1);
      t_rng = (g_seed + 1) * 0x9E3779B97F4A7C15ull ^ ((unsigned long long) (t_thread + 1) * 0xD1B54A32D192ED03ull);
      if (!t_rng) t_rng = 1;
    }
  unsigned long long seq = g_next.fetch_add(1);
  if (seq < VERIF_MAX_EVENTS)
    {
      verif_event& e = g_events[seq];
      e.thread = t_thread;
      e.point = point;
      e.queue = queue;
      e.task = task;
      e.seq = seq + 1;	// written last: a reader sees seq != 0 only for complete entries (best effort)
    }
  if (t_thread < VERIF_MAX_THREADS)
    g_last_point[t_thread] = point;
  g_last_progress_ns = now_ns();
}

extern "C" void
abg_verif_point(int point, const void* queue, const void* task)
{
  verif_log_event(point, queue, task);
  if (!g_perturb || !is_delay_point(point))
    return;
  unsigned r = t_rnd() % 1000;
  if (r < 300)
    sched_yield();
  else if (r < 500)
    usleep(t_rnd() % 200);
  else if (r < 508)
    usleep(2000);
}

// ---- accessors for the harness
extern "C" unsigned long long
verif_event_count()
{
  unsigned long long n = g_next.load();
  return n < VERIF_MAX_EVENTS ? n : VERIF_MAX_EVENTS;
}

extern "C" void
verif_reset_events()
{
  if (g_enabled.load() != 1)
    verif_init();
  unsigned long long n = verif_event_count();
  memset(g_events, 0, n * sizeof(verif_event));
  g_next = 0;
}

extern "C" void
verif_dump_events(FILE* out)
{
  unsigned long long n = verif_event_count();
  for (unsigned long long i = 0; i < n; ++i)
    {
      const verif_event& e = g_events[i];
      fprintf(out, "E %llu %d %d %p %p\n", i, e.thread, e.point, e.queue, e.task);
    }
}

extern "C" int
verif_thread_count()
{return g_next_thread.load();}

extern "C" int
verif_last_point(int thread)
{return thread < VERIF_MAX_THREADS ? g_last_point[thread].load() : 0;}

extern "C" unsigned long long
verif_ns_since_progress()
{
  unsigned long long last = g_last_progress_ns.load();
  unsigned long long now = now_ns();
  return now > last ? now - last : 0;	// another thread may have logged progress after 'now' was read
}

// When linked into a tool (abipkgdiff-sched), dump the events at exit if asked to.
static void
verif_atexit_dump()
{
  const char* path = getenv("VERIF_EVENT_LOG");
  if (!path)
    return;
  FILE* f = fopen(path, "w");
  if (!f)
    return;
  verif_dump_events(f);
  fclose(f);
}

namespace
{
struct verif_registrar
{
  verif_registrar() { if (getenv("VERIF_EVENT_LOG")) atexit(verif_atexit_dump); }
} verif_registrar_instance;
}
