// C21 (and the API half of C20) monitor: equality / hashing / diffing relations on the IR.
//
// usage: ir_relations <binary1> <binary2>
// Both binaries are loaded in ONE environment through the public API.  Output:
//   V <key> <witness>     one line per relation violated (first witness per key) + count
//   SUMMARY evals=.. nontrivial=.. pairs_equal=.. pairs_unequal=..
#include <cstdio>
#include <cstring>
#include <iostream>
#include <map>
#include <set>
#include <string>
#include <vector>
#include "abg-comparison.h"
#include "abg-corpus.h"
#include "abg-dwarf-reader.h"
#include "abg-ir.h"
#include "abg-tools-utils.h"

using namespace abigail;
using namespace abigail::comparison;
using std::string;
using std::vector;

struct stats
{
  unsigned long long evals, equal_pairs, unequal_pairs;
  std::map<string, unsigned long long> vcount;
  std::map<string, string> witness;
  stats() : evals(0), equal_pairs(0), unequal_pairs(0) {}
  void v(const string& key, const string& w)
  {
    if (!vcount[key]++)
      witness[key] = w;
  }
};
static stats S;

static corpus_sptr
load(const char* path, ir::environment* env)
{
  vector<char**> di_roots;
  elf_reader::status st = elf_reader::STATUS_UNKNOWN;
  dwarf_reader::read_context_sptr ctxt = dwarf_reader::create_read_context(path, di_roots, env, /*load_all_types=*/false);
  return dwarf_reader::read_corpus_from_elf(*ctxt, st);
}

// Does the diff tree rooted at d contain a node that carries a local change?
static bool
has_local_change_somewhere(const diff* d, std::set<const diff*>& seen, int depth = 0)
{
  if (!d || depth > 200 || !seen.insert(d).second)
    return false;
  if (d->has_local_changes() != NO_CHANGE_KIND)
    return true;
  for (vector<diff*>::const_iterator i = d->children_nodes().begin(); i != d->children_nodes().end(); ++i)
    if (has_local_change_somewhere(*i, seen, depth + 1))
      return true;
  return false;
}

static void
check_type_pair(const type_base_sptr& a, const type_base_sptr& b, diff_context_sptr ctxt, const string& name, bool with_diff)
{
  ++S.evals;
  bool ab = (*a == *b), ba = (*b == *a);
  if (ab != ba)
    S.v("type-equality-asymmetric", name);
  if (ab)
    {
      ++S.equal_pairs;
      if (hash_type(a.get()) != hash_type(b.get()))
	S.v("equal-types-different-hash", name);
    }
  else
    ++S.unequal_pairs;
  // canonical types (C20): same canonical type <=> structurally equal, inside one environment
  type_base_sptr ca = a->get_canonical_type(), cb = b->get_canonical_type();
  if (ca && cb)
    {
      if ((ca.get() == cb.get()) != ab)
	S.v(ab ? "equal-types-different-canonical-type" : "unequal-types-same-canonical-type", name);
    }
  if (with_diff)
    {
      diff_sptr d = compute_diff(a, b, ctxt);
      if (d)
	{
	  if (d->has_changes() != !ab)
	    S.v(ab ? "diff-has-changes-for-equal-types" : "diff-has-no-change-for-unequal-types", name);
	}
    }
}

int
main(int argc, char** argv)
{
  if (argc != 3) return 2;
  ir::environment_sptr env(new ir::environment);
  corpus_sptr c1 = load(argv[1], env.get()), c2 = load(argv[2], env.get());
  if (!c1 || !c2)
    {
      printf("NOCORPUS\n");
      return 0;
    }
  diff_context_sptr ctxt(new diff_context);
  ctxt->show_leaf_changes_only(false);

  // ---- functions and variables with the same id in both corpora
  std::map<string, function_decl*> f1, f2;
  for (auto f : c1->get_functions()) f1[f->get_id()] = f;
  for (auto f : c2->get_functions()) f2[f->get_id()] = f;
  corpus_diff_sptr cd = compute_diff(c1, c2, ctxt);
  for (auto& e : f1)
    {
      auto it = f2.find(e.first);
      if (it == f2.end()) continue;
      function_decl *a = e.second, *b = it->second;
      ++S.evals;
      bool ab = (*a == *b), ba = (*b == *a);
      if (ab != ba) S.v("function-equality-asymmetric", e.first);
      if (ab)
	{
	  ++S.equal_pairs;
	  if (a->get_hash() != b->get_hash()) S.v("equal-functions-different-hash", e.first);
	}
      else
	++S.unequal_pairs;
      bool in_changed = cd->changed_functions().find(e.first) != cd->changed_functions().end();
      if (in_changed == ab)
	S.v(ab ? "equal-function-listed-as-changed" : "unequal-function-not-listed-as-changed", e.first);
      if (in_changed)
	{
	  function_decl_diff_sptr d = cd->changed_functions().find(e.first)->second;
	  if (d && !d->has_changes())
	    S.v("function-listed-as-changed-but-its-diff-has-no-change", e.first);
	}
    }
  std::map<string, var_decl*> v1, v2;
  for (auto v : c1->get_variables()) v1[v->get_id()] = v;
  for (auto v : c2->get_variables()) v2[v->get_id()] = v;
  for (auto& e : v1)
    {
      auto it = v2.find(e.first);
      if (it == v2.end()) continue;
      var_decl *a = e.second, *b = it->second;
      ++S.evals;
      bool ab = (*a == *b), ba = (*b == *a);
      if (ab != ba) S.v("variable-equality-asymmetric", e.first);
      if (ab)
	{
	  ++S.equal_pairs;
	  if (a->get_hash() != b->get_hash()) S.v("equal-variables-different-hash", e.first);
	}
      else
	++S.unequal_pairs;
    }

  // ---- types with the same name in both corpora
  std::map<string, type_base_sptr> t1, t2;
  vector<type_base_sptr> all1;
  for (auto& w : c1->get_types().get_types_sorted_by_name())
    if (type_base_sptr t = type_base_sptr(w))
      {
	t1[get_pretty_representation(t, true)] = t;
	all1.push_back(t);
      }
  for (auto& w : c2->get_types().get_types_sorted_by_name())
    if (type_base_sptr t = type_base_sptr(w))
      t2[get_pretty_representation(t, true)] = t;
  for (auto& e : t1)
    {
      auto it = t2.find(e.first);
      if (it == t2.end()) continue;
      check_type_pair(e.second, it->second, ctxt, e.first, true);
    }
  // ---- all pairs of types inside the first corpus (symmetry, hash, canonical type consistency)
  size_t n = all1.size();
  size_t step = n > 150 ? n / 150 + 1 : 1;
  for (size_t i = 0; i < n; i += step)
    for (size_t j = i; j < n; j += step)
      check_type_pair(all1[i], all1[j], ctxt, get_pretty_representation(all1[i], true) + " <> " + get_pretty_representation(all1[j], true), false);

  for (auto& e : S.vcount)
    printf("V %s count=%llu witness=%s\n", e.first.c_str(), e.second, S.witness[e.first].c_str());
  printf("SUMMARY evals=%llu nontrivial=%llu pairs_equal=%llu pairs_unequal=%llu types1=%zu\n", S.evals,
	 (S.equal_pairs && S.unequal_pairs) ? S.evals : 0ull, S.equal_pairs, S.unequal_pairs, n);
  return 0;
}
