// C32 monitor: stress of abigail::workers::queue + event recorder.
//
// usage: queue_monitor <seed> <scenarios> <max_tasks> <max_workers>
// For every scenario the harness prints
//   SCENARIO <k> workers=<w> ctor=<c> tasks=<n> notifier=<0|1>
//   T <task-ptr> <id>                (one per task created)
//   S <id> <0|1>                     (result of schedule_task for that id, in call order)
//   E <seq> <thread> <point> <queue> <task>      (the event log, in global sequence order)
//   C <id>...                        (get_completed_tasks() after wait)
//   END <k>
// The *offline* checker (python) decides; the harness only records.
// Event points: 1..14 come from the hooks inside libabigail; 101/102 task
// perform enter/exit, 103/104 notifier enter/exit, 110/111 schedule call/return,
// 120/121 wait_for_workers_to_complete call/return, 130/131 queue destruction begin/end.
#include <atomic>
#include <cstdio>
#include <cstdlib>
#include <cstring>
#include <map>
#include <string>
#include <vector>
#include <pthread.h>
#include <unistd.h>
#include "abg-workers.h"

using namespace abigail::workers;

extern "C" void verif_log_event(int point, const void* queue, const void* task);
extern "C" void verif_reset_events();
extern "C" void verif_dump_events(FILE*);
extern "C" unsigned long long verif_event_count();
extern "C" int verif_thread_count();
extern "C" int verif_last_point(int);
extern "C" unsigned long long verif_ns_since_progress();

static unsigned long long g_rng;
static unsigned
rnd()
{
  g_rng ^= g_rng << 13; g_rng ^= g_rng >> 7; g_rng ^= g_rng << 17;
  return (unsigned) (g_rng >> 11);
}

struct my_task : public task
{
  int id;
  unsigned spin;
  volatile int performed;
  my_task(int i, unsigned s) : id(i), spin(s), performed(0) {}
  virtual void
  perform()
  {
    verif_log_event(101, 0, this);
    volatile unsigned x = 0;
    for (unsigned i = 0; i < spin; ++i)
      x += i;
    if (spin & 1)
      sched_yield();
    ++performed;	// deliberately unsynchronized: a task performed twice concurrently is a race TSan reports
    verif_log_event(102, 0, this);
  }
};

struct my_notifier : public queue::task_done_notify
{
  volatile int inside;
  int overlaps;
  std::vector<int> order;
  my_notifier() : inside(0), overlaps(0) {}
  virtual void
  operator()(const task_sptr& t)
  {
    verif_log_event(103, 0, t.get());
    if (inside)
      ++overlaps;
    inside = 1;
    order.push_back(static_cast<my_task*>(t.get())->id);	// unsynchronized on purpose (the queue must serialize us)
    volatile unsigned x = 0;
    for (unsigned i = 0; i < 50; ++i)
      x += i;
    inside = 0;
    verif_log_event(104, 0, t.get());
  }
};

// ---- watchdog: logical deadlock witness
static std::atomic<int> g_scenario_running(0);
static std::atomic<int> g_cur_scenario(-1);

static bool
is_preblock_point(int p)
{
  // 3: about to (maybe) cond_wait for work; 10: about to (maybe) wait for the todo list to drain;
  // 13: about to join; 120: inside wait_for_workers_to_complete; 110: inside schedule_task
  return p == 3 || p == 10 || p == 13 || p == 120 || p == 130;
}

static void*
watchdog(void*)
{
  for (;;)
    {
      usleep(200000);
      if (!g_scenario_running)
	continue;
      unsigned long long idle = verif_ns_since_progress();
      if (idle < 5000000000ull)
	continue;
      int n = verif_thread_count();
      bool all_blocked = true;
      for (int t = 0; t < n; ++t)
	if (!is_preblock_point(verif_last_point(t)) && verif_last_point(t) != 14 && verif_last_point(t) != 0)
	  {
	    // threads that ended (worker returned after point 8) keep 8 as last point: they are not blocked
	    if (verif_last_point(t) != 8)
	      all_blocked = false;
	  }
      if (all_blocked)
	{
	  printf("DEADLOCK scenario=%d idle_ms=%llu last_points=", g_cur_scenario.load(), idle / 1000000);
	  for (int t = 0; t < n; ++t)
	    printf("%d:%d,", t, verif_last_point(t));
	  printf("\n");
	  verif_dump_events(stdout);
	  fflush(stdout);
	  _exit(3);
	}
      if (idle > 120000000000ull)
	{
	  printf("STALL scenario=%d idle_ms=%llu (inconclusive)\n", g_cur_scenario.load(), idle / 1000000);
	  fflush(stdout);
	  _exit(4);
	}
    }
  return 0;
}

static void
scenario(int k, int max_tasks, int max_workers)
{
  int wstyle = rnd() % 10;
  unsigned workers = wstyle == 0 ? 0 : wstyle == 1 ? 1 : wstyle == 2 ? (unsigned) max_workers : 1 + rnd() % max_workers;
  int ctor = rnd() % 3;		// 0: queue(), 1: queue(n), 2: queue(n, notifier)
  int nstyle = rnd() % 10;
  int ntasks = nstyle == 0 ? 0 : nstyle == 1 ? 1 : nstyle < 6 ? (int) (rnd() % 20) : (int) (rnd() % (max_tasks + 1));
  bool bursts = rnd() % 2;
  my_notifier notifier;
  verif_reset_events();
  g_cur_scenario = k;
  printf("SCENARIO %d workers=%s ctor=%d tasks=%d notifier=%d\n", k,
	 ctor == 0 ? "default" : std::to_string(workers).c_str(), ctor, ntasks, ctor == 2);
  std::vector<task_sptr> tasks;
  for (int i = 0; i < ntasks; ++i)
    {
      tasks.push_back(task_sptr(new my_task(i, rnd() % 4 == 0 ? rnd() % 20000 : rnd() % 200)));
      printf("T %p %d\n", (void*) tasks.back().get(), i);
    }
  g_scenario_running = 1;
  {
    std::unique_ptr<queue> q;
    if (ctor == 0) q.reset(new queue());
    else if (ctor == 1) q.reset(new queue(workers));
    else q.reset(new queue(workers, notifier));
    int i = 0;
    while (i < ntasks)
      {
	int style = rnd() % 4;
	if (style == 0 && ntasks - i >= 2)
	  {
	    // schedule_tasks() on a batch
	    int n = 2 + rnd() % std::min(8, ntasks - i - 1);
	    queue::tasks_type batch(tasks.begin() + i, tasks.begin() + i + n);
	    for (int j = i; j < i + n; ++j) verif_log_event(110, q.get(), tasks[j].get());
	    bool ok = q->schedule_tasks(batch);
	    for (int j = i; j < i + n; ++j)
	      {
		verif_log_event(111, q.get(), tasks[j].get());
		printf("S %d %d\n", j, ok ? 1 : 0);
	      }
	    i += n;
	  }
	else
	  {
	    verif_log_event(110, q.get(), tasks[i].get());
	    bool ok = q->schedule_task(tasks[i]);
	    verif_log_event(111, q.get(), tasks[i].get());
	    printf("S %d %d\n", i, ok ? 1 : 0);
	    ++i;
	  }
	if (rnd() % 16 == 0)
	  {
	    // a nil task must be refused
	    bool ok = q->schedule_task(task_sptr());
	    printf("NIL %d\n", ok ? 1 : 0);
	  }
	if (bursts && rnd() % 8 == 0)
	  usleep(rnd() % 300);	// let completions interleave with scheduling
      }
    verif_log_event(120, q.get(), 0);
    q->wait_for_workers_to_complete();
    verif_log_event(121, q.get(), 0);
    printf("C");
    const queue::tasks_type& done = q->get_completed_tasks();
    for (size_t j = 0; j < done.size(); ++j)
      printf(" %d", static_cast<my_task*>(done[j].get())->id);
    printf("\n");
    // scheduling on a drained queue must be refused and perform nothing
    if (rnd() % 2)
      {
	task_sptr late(new my_task(-1, 10));
	printf("T %p -1\n", (void*) late.get());
	bool ok = q->schedule_task(late);
	printf("LATE %d\n", ok ? 1 : 0);
	usleep(2000);
	printf("LATEPERFORMED %d\n", static_cast<my_task*>(late.get())->performed);
      }
    verif_log_event(130, q.get(), 0);
    q.reset();
    verif_log_event(131, 0, 0);
  }
  g_scenario_running = 0;
  usleep(500);	// anything that still logs after this point is an event after destruction
  printf("P");
  for (int i2 = 0; i2 < ntasks; ++i2)
    printf(" %d", static_cast<my_task*>(tasks[i2].get())->performed);
  printf("\n");
  printf("N overlaps=%d calls=%zu\n", notifier.overlaps, notifier.order.size());
  verif_dump_events(stdout);
  printf("END %d\n", k);
  fflush(stdout);
}

int
main(int argc, char** argv)
{
  if (argc != 5) return 2;
  g_rng = 0x9E3779B97F4A7C15ull ^ (strtoull(argv[1], 0, 10) * 0xD1B54A32D192ED03ull);
  if (!g_rng) g_rng = 1;
  int scenarios = atoi(argv[2]), max_tasks = atoi(argv[3]), max_workers = atoi(argv[4]);
  pthread_t wd;
  pthread_create(&wd, 0, watchdog, 0);
  for (int k = 0; k < scenarios; ++k)
    scenario(k, max_tasks, max_workers);
  printf("DONE %d\n", scenarios);
  return 0;
}
