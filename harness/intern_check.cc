// C42 monitor: interned strings vs. std::string semantics.
// usage: intern_check <seed> <rounds> <ops-per-round>
#include <cstdio>
#include <cstdlib>
#include <cstring>
#include <map>
#include <set>
#include <sstream>
#include <string>
#include <vector>
#include "abg-ir.h"
#include "abg-interned-str.h"

using std::string;
using std::vector;
using namespace abigail;

static unsigned long long g_rng;
static unsigned
rnd()
{
  g_rng ^= g_rng << 13; g_rng ^= g_rng >> 7; g_rng ^= g_rng << 17;
  return (unsigned) (g_rng >> 11);
}

static string
esc(const string& s)
{
  string r = "\"";
  char b[8];
  for (size_t i = 0; i < s.size(); ++i)
    {
      unsigned char c = s[i];
      if (c < 0x20 || c >= 0x7f || c == '"') { snprintf(b, sizeof b, "\\x%02x", c); r += b; }
      else r += c;
    }
  return r + "\"";
}

struct stats
{
  unsigned long long evals, nontrivial, distinct_contents;
  std::map<string, unsigned long long> vcount;
  std::map<string, string> witness;
  stats() : evals(0), nontrivial(0), distinct_contents(0) {}
  void v(const string& key, const string& w)
  {
    if (!vcount[key]++)
      witness[key] = w;
  }
};
static stats S;

static string
rand_content(const vector<string>& existing)
{
  int style = rnd() % 8;
  if (style == 0) return "";
  if (style <= 2 && !existing.empty())
    {
      // prefix / extension of an existing string: strings differing only in length
      string s = existing[rnd() % existing.size()];
      if (rnd() % 2) return s.substr(0, s.empty() ? 0 : rnd() % (s.size() + 1));
      return s + (char) ('a' + rnd() % 3);
    }
  if (style == 3 && !existing.empty())
    return existing[rnd() % existing.size()];	// duplicate
  int len = rnd() % 12;
  string s;
  for (int i = 0; i < len; ++i)
    {
      int k = rnd() % 20;
      if (k == 0) s += (char) (0x80 + rnd() % 0x7f);	// high byte
      else if (k == 1) s += (char) (1 + rnd() % 31);	// control char, never NUL
      else s += (char) ('a' + rnd() % 4);
    }
  return s;
}

template<typename Intern>
static void
round(Intern intern, int ops, const char* which)
{
  vector<string> contents;
  vector<interned_string> handles;
  std::set<string> shadow_set;
  interned_string_set_type iset;
  std::set<string> distinct;
  for (int i = 0; i < ops; ++i)
    {
      string c = rand_content(contents);
      interned_string h = intern(c);
      contents.push_back(c);
      handles.push_back(h);
      distinct.insert(c);
      // conversion round trip
      ++S.evals;
      if (static_cast<string>(h) != c)
	S.v("conversion-differs", string(which) + " intern(" + esc(c) + ") converts to " + esc(static_cast<string>(h)));
      // set membership must shadow std::set<string>
      bool in_shadow = shadow_set.count(c) != 0;
      bool in_iset = iset.find(h) != iset.end();
      if (in_shadow != in_iset)
	S.v("set-membership-differs", string(which) + " " + esc(c) + (in_iset ? " found" : " not found") + " in interned_string_set_type");
      if (rnd() % 2) { shadow_set.insert(c); iset.insert(h); }
      if (shadow_set.size() != iset.size())
	S.v("set-size-differs", string(which) + " after inserting " + esc(c));
    }
  S.distinct_contents += distinct.size();
  // pairwise relations
  size_t n = handles.size();
  int pairs = ops * 6;
  hash_interned_string hs;
  for (int p = 0; p < pairs; ++p)
    {
      size_t i = rnd() % n, j = rnd() % n;
      const string &a = contents[i], &b = contents[j];
      const interned_string &x = handles[i], &y = handles[j];
      ++S.evals;
      if (a != b && a.size() != b.size() && (a.compare(0, b.size(), b) == 0 || b.compare(0, a.size(), a) == 0))
	++S.nontrivial;
      string w = string(which) + " a=" + esc(a) + " b=" + esc(b);
      bool same = (a == b);
      if ((x.raw() == y.raw()) != same) S.v("identity-differs-from-content-equality", w);
      if ((x == y) != same) S.v("eq-interned", w);
      if ((x != y) == same) S.v("ne-interned", w);
      if ((x == b) != same) S.v("eq-interned-plain", w);
      if ((b == x) != same) S.v("eq-plain-interned", w);
      if ((x != b) == same) S.v("ne-interned-plain", w);
      if ((b != x) == same) S.v("ne-plain-interned", w);
      if ((x < y) != (a < b)) S.v("less-than", w);
      if (same && hs(x) != hs(y)) S.v("hash-differs-for-equal-contents", w);
      if (x.empty() != a.empty()) S.v("empty()", w);
      if (x + b != a + b) S.v("concat-interned-plain", w);
      if (a + y != a + b) S.v("concat-plain-interned", w);
      std::ostringstream o;
      o << x;
      if (o.str() != a) S.v("stream-output", w);
    }
  // the default-constructed interned_string stands for ""
  interned_string dflt;
  for (size_t i = 0; i < n && i < 50; ++i)
    {
      ++S.evals;
      const string& b = contents[i];
      if ((dflt == b) != b.empty()) S.v("default-eq-plain", esc(b));
      if ((b == dflt) != b.empty()) S.v("plain-eq-default", esc(b));
      if ((dflt != b) == b.empty()) S.v("default-ne-plain", esc(b));
    }
  if (static_cast<string>(dflt) != "") S.v("default-conversion", "");
}

struct env_intern
{
  environment* e;
  interned_string operator()(const string& s) const { return e->intern(s); }
};
struct pool_intern
{
  interned_string_pool* p;
  interned_string operator()(const string& s) const { return p->create_string(s); }
};

int
main(int argc, char** argv)
{
  if (argc != 4) return 2;
  g_rng = 0x9E3779B97F4A7C15ull ^ (strtoull(argv[1], 0, 10) * 0xD1B54A32D192ED03ull);
  if (!g_rng) g_rng = 1;
  int rounds = atoi(argv[2]), ops = atoi(argv[3]);
  for (int r = 0; r < rounds; ++r)
    {
      if (r % 2)
	{
	  environment env;
	  env_intern f; f.e = &env;
	  round(f, ops, "environment::intern");
	}
      else
	{
	  interned_string_pool pool;
	  pool_intern f; f.p = &pool;
	  round(f, ops, "interned_string_pool::create_string");
	  // has_string / get_string agree with what was interned
	}
    }
  for (std::map<string, unsigned long long>::iterator i = S.vcount.begin(); i != S.vcount.end(); ++i)
    printf("V %s count=%llu witness=%s\n", i->first.c_str(), i->second, S.witness[i->first].c_str());
  printf("SUMMARY evals=%llu nontrivial=%llu distinct_contents=%llu\n", S.evals, S.nontrivial, S.distinct_contents);
  return 0;
}
