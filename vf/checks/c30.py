"""C30 - abipkgdiff's verdict covers every binary in the packages."""
import os
import re
from .. import core, wl, run, pkggen

PROP = "C30"
LEVEL = "exploration"
FLAVORS = ["plain"]
ENGINE = "cli-oracle"
TECHNIQUE = "model-based + differential runtime oracle: abipkgdiff on generated package pairs (directories and tar archives) vs the generator's model of removed / added / changed binaries and vs abidiff on every matched pair"
LEVEL_TEXT = ("two packages of 3-12 generated shared libraries (some in sub-directories, with and without SONAME) differ by random "
              "removals, additions and ABI changes known from the generator.  abipkgdiff must exit with bits 4|8 when a binary of the "
              "first package is missing from the second, with bit 4 when a matched pair changed, and with 0 only if nothing was removed "
              "and every matched pair compares clean; for every matched pair a 'changes of <name>' block must be present exactly when "
              "abidiff (default options) reports an ABI change on that pair, and the status of the run must contain the union of the "
              "per-pair abidiff status bits.")
LEVEL_NOTE = "a package that only gains a binary is not judged either way; RPM/DEB forms are out of reach (no rpm tool; tar and directory forms are covered)"
ASSUMPTIONS = [LEVEL_NOTE, "HOME is empty"]


def plan(tier):
    return {"n": 60 if tier == "quick" else 240, "floor": 20 if tier == "quick" else 72}


def rule(tier):
    return ("case = one package pair (3-12 libraries; directory form, every third case as tar archives) ; evaluations = verdict checks "
            "(package level + one per matched pair); non-trivial = the pair has >= 1 removed or changed binary; distinct by model digest")


def case(ctx, i):
    rng = ctx.rng(i)
    r = core.CaseResult()
    d = ctx.casedir(i)
    tar = (i % 3 == 2)
    try:
        p1, p2, model = pkggen.make_packages(ctx, rng, d, rng.randint(3, 12), tar=tar)
    except Exception as ex:
        return r.skip("package-build-failed:" + str(ex)[:100])
    if len([m for m in model if m["status"] != "added"]) < 1:
        return r.skip("empty-first-package")
    extra = rng.choice([[], [], ["--no-parallel"], ["--no-default-suppression"]])
    res = wl.tool_run(ctx, "abipkgdiff", extra + [p1, p2], d, timeout=600)
    what = "%s packages, %d binaries: %s" % ("tar" if tar else "directory", len(model),
                                             {s: len([m for m in model if m["status"] == s]) for s in ("same", "changed", "removed", "added")})
    if run.abnormal(res):
        wl.abnormal_violation(r, res, "abipkgdiff [%s]" % what)
        return r
    rc = res.rc
    out = res.stdout
    removed = [m for m in model if m["status"] == "removed"]
    matched = [m for m in model if m["status"] in ("same", "changed")]
    # per-pair abidiff verdicts (the directory copies are still there in both forms)
    union = 0
    any_changed = False
    for m in matched:
        ad = wl.tool_run(ctx, "abidiff", [m["a"], m["b"]], d)
        if run.abnormal(ad) or ad.rc is None or ad.rc & 1:
            r.count("abidiff_failed_on_pair")
            continue
        r.evaluations += 1
        union |= ad.rc
        has_block = re.search(r"=+ changes of '%s'=+" % re.escape(m["name"]), out) is not None
        listed_removed = re.search(r"\[D\] \S*%s," % re.escape(m["name"]), out) is not None
        listed_added = re.search(r"\[A\] \S*%s," % re.escape(m["name"]), out) is not None
        if listed_removed and listed_added:
            # the two copies of the binary were not paired at all
            r.violate("oracle:C30:pair-not-matched", "%s exists at the same relative path in both packages but abipkgdiff lists it as removed AND added "
                      "instead of comparing it [%s]" % (m["rel"], what), run=res.brief())
        elif bool(ad.rc & 4) != has_block:
            r.violate("oracle:C30:per-binary-verdict-differs:%s" % ("missing-block" if ad.rc & 4 else "spurious-block"),
                      "abidiff says %s for %s but abipkgdiff %s a 'changes of' block for it [%s]"
                      % ("ABI change" if ad.rc & 4 else "no change", m["name"], "prints" if has_block else "does not print", what), run=res.brief())
        if ad.rc & 4:
            any_changed = True
        if m["status"] == "changed" and not (ad.rc & 4):
            r.count("model_change_not_seen_by_abidiff")   # C05's subject, not judged here
    r.evaluations += 1
    if removed and not (rc is not None and (rc & 4) and (rc & 8)):
        r.violate("oracle:C30:removed-binary-status", "a binary of the first package (%s) is missing from the second but abipkgdiff exits %s (bits 4|8 expected) [%s]"
                  % (removed[0]["name"], rc, what), run=res.brief())
    if any_changed and not (rc is not None and rc & 4):
        r.violate("oracle:C30:changed-binary-status", "a matched pair has ABI changes but abipkgdiff exits %s [%s]" % (rc, what), run=res.brief())
    if rc == 0 and (removed or any_changed):
        r.violate("oracle:C30:exit0-despite-differences", "abipkgdiff exits 0 although %d binaries were removed and changed=%s [%s]" % (len(removed), any_changed, what), run=res.brief())
    if rc is not None and not (rc & 1) and (union & ~rc & 12):
        r.violate("oracle:C30:status-misses-pair-bits", "abipkgdiff exits %s but the union of the per-pair abidiff statuses is %s [%s]" % (rc, union, what), run=res.brief())
    if rc is not None and (rc & 12) and not removed and not any_changed and not (rc & 1):
        r.violate("oracle:C30:spurious-change-status", "abipkgdiff exits %s although nothing was removed and every matched pair compares clean [%s]" % (rc, what), run=res.brief())
    for m in removed:
        if m["name"] not in out:
            r.violate("oracle:C30:removed-binary-not-listed", "removed binary %s is not mentioned in the report [%s]" % (m["name"], what), run=res.brief())
    r.nontrivial = bool(removed or any_changed)
    r.digest = core.digest([(m["name"], m["status"], m["mutations"]) for m in model], tar)
    r.add("forms", "tar" if tar else "dir")
    r.sample = {"form": "tar" if tar else "dir", "binaries": [(m["rel"], m["status"]) for m in model][:8], "status": rc, "options": extra}
    return r
