"""C28 - kernel binaries expose exactly their ksymtab-exported interface."""
import os
import subprocess
from .. import core, wl, run, progen, cc, abixml, readelf

PROP = "C28"
LEVEL = "exploration"
FLAVORS = ["plain"]
ENGINE = "cli-oracle"
TECHNIQUE = "differential runtime oracle on synthetic kernel-like objects: functions/variables and symbol tables of abidw output vs the generator's set of EXPORT_SYMBOL'ed names (kernel mode) and vs readelf's public symbols (--no-linux-kernel-mode)"
LEVEL_TEXT = ("generated C programs are turned into kernel look-alikes: a random subset E of their public functions and variables gets the "
              "expansion of EXPORT_SYMBOL (a string in a __ksymtab_strings section and a __ksymtab_<sym> marker symbol), and the whole is "
              "linked as a relocatable object ('ld -r', optionally with .modinfo and .gnu.linkonce.this_module like a module) or as a "
              "static non-PIE executable (like vmlinux).  In the default (kernel) mode the declarations and the symbol tables of the abidw "
              "output must be exactly E; with --no-linux-kernel-mode exactly all public symbols per readelf.  The same kernel tree is "
              "loaded with 'abidw --linux-tree' and compared with itself as a corpus group (C01's group clause).")
LEVEL_NOTE = "synthetic look-alikes, not real kernels; ksymtab sections hold what libabigail looks at (section name, marker symbols)"
ASSUMPTIONS = [LEVEL_NOTE, "readelf is ground truth for the public symbols"]


def plan(tier):
    return {"n": 150 if tier == "quick" else 600, "floor": 40 if tier == "quick" else 160}


def rule(tier):
    return ("case = one generated program x random export subset E x binary form (module-like .ko, plain ld -r object, static vmlinux-like "
            "executable); evaluations = set comparisons (decls and symbol tables, 2 modes) + group self-comparisons; non-trivial = E is a "
            "proper non-empty subset of the public symbols; distinct by source digest + E + form")

EXPORT_MACRO = '''
#define VERIF_EXPORT_SYMBOL(sym) \\
  static const char __kstrtab_##sym[] __attribute__((section("__ksymtab_strings"), used, aligned(1))) = #sym; \\
  static const void *const __ksymtab_##sym __attribute__((section("___ksymtab+" #sym), used)) = (const void *)&sym;
'''


def build_kernel_like(prog, d, exported, form, family, dwarf):
    files = progen.render(prog)
    os.makedirs(d, exist_ok=True)
    objs = []
    for fn, text in files.items():
        if fn.startswith("tu"):
            tu = int(fn[2:].split(".")[0])
            mine = [x.name for x in prog.functions + prog.variables if x.tu == tu and x.name in exported]
            text += EXPORT_MACRO + "".join("VERIF_EXPORT_SYMBOL(%s)\n" % n for n in mine)
            if form == "module" and tu == 0:
                text += ('static const char verif_modinfo[] __attribute__((section(".modinfo"), used)) = "license=GPL";\n'
                         'struct verif_module { int x; } verif_this_module __attribute__((section(".gnu.linkonce.this_module"), used)) = { 1 };\n')
            if form == "vmlinux" and tu == 0:
                text += "void _start(void) { for (;;) ; }\n"
        with open(os.path.join(d, fn), "w") as fh:
            fh.write(text)
    ccx = cc.compiler_for("c", family)
    for tu in range(prog.ntus):
        o = os.path.join(d, "tu%d.o" % tu)
        argv = [ccx, "-c", "-w", "-g", "-gdwarf-%d" % dwarf, "-O0", "-fno-pic", "-fno-pie", "-fno-common", "-o", o, os.path.join(d, "tu%d.c" % tu)]
        rr = subprocess.run(argv, cwd=d, stdout=subprocess.PIPE, stderr=subprocess.STDOUT)
        if rr.returncode != 0:
            raise cc.CompileError(rr.stdout.decode(errors="replace")[-600:])
        objs.append(o)
    if form == "vmlinux":
        out = os.path.join(d, "vmlinux")
        argv = [ccx, "-static", "-nostdlib", "-no-pie", "-o", out] + objs
    else:
        out = os.path.join(d, "mod.ko" if form == "module" else "obj.o")
        argv = ["ld", "-r", "-o", out] + objs
    rr = subprocess.run(argv, cwd=d, stdout=subprocess.PIPE, stderr=subprocess.STDOUT)
    if rr.returncode != 0:
        raise cc.CompileError(rr.stdout.decode(errors="replace")[-600:])
    return out


def doc_sets(doc):
    syms = {n.attrs.get("name") for n in doc.fn_syms + doc.var_syms}
    decls = set()
    dangling = set()
    symids = doc.symbol_ids()
    for n in doc.functions + doc.variables:
        sid = n.attrs.get("elf-symbol-id")
        if sid:
            decls.add(sid.split("@")[0])
            if sid not in symids:
                dangling.add(sid)
    return syms, decls, dangling


def case(ctx, i):
    rng = ctx.rng(i)
    r = core.CaseResult()
    d = ctx.casedir(i)
    prog = progen.generate(rng, wl.gen_opts(rng, ctx.tier, nfuncs=rng.randint(3, 9), nvars=rng.randint(1, 4)))
    for v in prog.variables:
        v.common = False
    pub = [x.name for x in prog.exported_functions() + prog.exported_variables()]
    if len(pub) < 3:
        return r.skip("too-few-symbols")
    E = set(rng.sample(pub, rng.randint(1, len(pub) - 1)))
    form = ["module", "object", "vmlinux"][i % 3]
    family, dwarf = rng.choice(["gcc", "clang"]), rng.choice([4, 5])
    try:
        binp = build_kernel_like(prog, os.path.join(d, "k"), E, form, family, dwarf)
    except cc.CompileError as ex:
        return r.skip("compile-error:" + str(ex)[-200:])
    efns, evars = readelf.public_symbols(binp, "symtab")
    P = {s.name for s in efns + evars if not s.name.startswith(("__ksymtab", "__kstrtab", "verif_", "_start"))}
    what = "%s, %s -gdwarf-%d, exports %d of %d" % (form, family, dwarf, len(E), len(P))
    for mode, opts, expected in (("kernel", [], E & P), ("no-kernel-mode", ["--no-linux-kernel-mode"], P)):
        xml = os.path.join(d, mode + ".abi")
        w = wl.abidw(ctx, binp, xml, opts)
        if run.abnormal(w):
            wl.abnormal_violation(r, w, "abidw %s on a kernel-like %s" % (" ".join(opts), form))
            continue
        if w.rc != 0 or not os.path.exists(xml):
            r.violate("oracle:C28:abidw-failed:%s:%s" % (mode, form), "abidw %s exits %s on a kernel-like binary (%s)" % (" ".join(opts), w.rc, what), run=w.brief())
            continue
        try:
            doc = abixml.Doc(open(xml, "rb").read())
        except abixml.ParseError as ex:
            r.violate("oracle:C28:malformed:%s" % mode, "abidw output is not well-formed (%s)" % ex)
            continue
        syms, decls, dangling = doc_sets(doc)
        ignore = lambda s: {x for x in s if x and not x.startswith(("__ksymtab", "__kstrtab", "verif_", "_start"))}
        syms, decls = ignore(syms), ignore(decls)
        r.evaluations += 2
        if syms != expected:
            r.violate("oracle:C28:%s:symbol-tables:%s" % (mode, "missing" if expected - syms else "extra"),
                      "%s mode: symbol tables hold %s, expected exactly %s (%s)" % (mode, sorted(syms)[:6], sorted(expected)[:6], what))
        if decls != expected:
            r.violate("oracle:C28:%s:declarations:%s" % (mode, "missing" if expected - decls else "extra"),
                      "%s mode: declarations exist for %s, expected exactly %s (%s)" % (mode, sorted(decls)[:6], sorted(expected)[:6], what))
        if dangling:
            r.violate("oracle:C28:%s:dangling-elf-symbol-id" % mode,
                      "%s mode: declarations refer to symbols %s that are not in the document's symbol tables (%s)" % (mode, sorted(dangling)[:4], what))
    # corpus group of a synthetic kernel tree (vmlinux + module), compared with itself
    if form == "vmlinux" and i % 2 == 0:
        tree = os.path.join(d, "tree")
        os.makedirs(tree, exist_ok=True)
        import shutil
        shutil.copy(binp, os.path.join(tree, "vmlinux"))
        try:
            p2 = progen.generate(rng, wl.gen_opts(rng, ctx.tier, nfuncs=3, nvars=1))
            pub2 = [x.name for x in p2.exported_functions() + p2.exported_variables()]
            mod = build_kernel_like(p2, os.path.join(d, "m"), set(pub2[:2]), "module", family, dwarf)
            shutil.copy(mod, os.path.join(tree, "m.ko"))
        except cc.CompileError:
            mod = None
        g = os.path.join(d, "group.abi")
        w = wl.tool_run(ctx, "abidw", ["--linux-tree", tree, "--out-file", g], d, timeout=300)
        if run.abnormal(w):
            wl.abnormal_violation(r, w, "abidw --linux-tree")
        elif w.rc == 0 and os.path.exists(g) and b"abi-corpus-group" in open(g, "rb").read()[:4000]:
            for opts in ([], ["--leaf-changes-only"], ["--harmless", "--redundant"]):
                res = wl.tool_run(ctx, "abidiff", opts + [g, g], d)
                r.evaluations += 1
                r.count("group_self_comparisons")
                if run.abnormal(res):
                    wl.abnormal_violation(r, res, "abidiff group group")
                elif res.rc != 0 or res.stdout.strip():
                    r.violate("oracle:C28:group-self-comparison:" + wl.report_feature(res.stdout),
                              "a corpus group compared with itself (%s) exits %s and prints %d bytes" % (" ".join(opts), res.rc, len(res.stdout)), run=res.brief())
        else:
            r.count("linux_tree_not_loaded")
    r.nontrivial = 0 < len(E & P) < len(P)
    r.digest = core.digest(progen.source_digest(progen.render(prog)), sorted(E), form)
    r.add("forms", form)
    r.sample = {"form": form, "exported": sorted(E)[:5], "public": len(P), "compiler": family, "dwarf": dwarf}
    return r
