"""C35 - analysing compiler output is free of memory errors and undefined behaviour."""
import os
import shutil
from .. import core, wl, run, mutate, pairs

PROP = "C35"
LEVEL = "exploration"
FLAVORS = ["asan", "plain"]
ENGINE = "hostile-input"
TECHNIQUE = "sanitizer monitoring: the comparison / serialization pipelines (abidw, abidiff, abilint, abipkgdiff) re-executed on the ASan+UBSan build with hardened libstdc++ over compiler-produced binaries; valgrind memcheck on a sample in the thorough tier"
LEVEL_TEXT = ("for each generated program pair (gcc/clang, DWARF 4/5, DSO/PIE/relocatable) the ASan+UBSan build runs abidw (3 option "
              "sets incl. --load-all-types and --annotate), abidiff on ELF and ABIXML inputs under 4 option sets, abilint on the "
              "documents and abipkgdiff on two directories; any AddressSanitizer / UndefinedBehaviorSanitizer report or libstdc++ "
              "assertion is a violation.  The thorough tier adds valgrind memcheck (uninitialised-value use, which ASan cannot see) on "
              "the plain build for a sample of cases.")
LEVEL_NOTE = "MemorySanitizer is not used (libxml2, elfutils and libstdc++ are not instrumented: false alarms); leak detection is off"
ASSUMPTIONS = [LEVEL_NOTE, "-fno-sanitize-recover=all: the first report ends the process and is the one recorded"]

DIFF_OPTS = [[], ["--leaf-changes-only", "--impacted-interfaces"], ["--redundant", "--harmless"], ["--non-reachable-types", "--no-default-suppression"],
             ["--stat"], ["--no-show-locs", "--show-bytes"], ["--no-unreferenced-symbols"]]
DW_OPTS = [[], ["--load-all-types", "--annotate"], ["--type-id-style", "hash", "--no-show-locs"], ["--no-parameter-names", "--no-corpus-path"]]


def plan(tier):
    return {"n": 60 if tier == "quick" else 360, "floor": 20 if tier == "quick" else 96}


def rule(tier):
    return ("case = one generated pair (1-4 mixed mutations) x one configuration; ~14 tool executions on the ASan+UBSan build (thorough: "
            "+ 3 valgrind memcheck runs on every 25th case); evaluations = sanitized executions; non-trivial = every case (binaries "
            "differ); distinct by digest of both sources")


def case(ctx, i):
    rng = ctx.rng(i)
    r = core.CaseResult()
    d = ctx.casedir(i)
    pr, why = pairs.make_pair(ctx, rng, d, mutate.MIXED, nmut=rng.randint(1, 4))
    if pr is None:
        return r.skip(why)
    what = "+".join(e.kind for e in pr.expects) + " " + wl.describe_cfg(pr.cfg)

    def go(tool, args, flavor="asan"):
        res = wl.tool_run(ctx, tool, args, d, flavor=flavor, timeout=600)
        r.evaluations += 1
        r.add("tools", tool)
        if run.abnormal(res):
            r.violate(res.key, "%s %s on compiler output: %s (%s)" % (tool, " ".join(a for a in args if a.startswith("-")), res.key, what), run=res.brief())
        return res
    docs = []
    for k, o in enumerate(rng.sample(DW_OPTS, 3)):
        xml = os.path.join(d, "doc%d.abi" % k)
        go("abidw", o + ["--out-file", xml, pr.a if k % 2 == 0 else pr.b])
        if os.path.exists(xml):
            docs.append(xml)
    for o in rng.sample(DIFF_OPTS, 4):
        go("abidiff", o + [pr.a, pr.b])
    if docs:
        go("abidiff", [docs[0], pr.b])
        go("abidiff", [pr.a, docs[0]])
        go("abilint", ["--noout", docs[-1]])
        go("abilint", [docs[0]])
    go("abidw", ["--abidiff", pr.a])
    if pr.cfg["kind"] == "so":
        for side, lib in (("pa", pr.a), ("pb", pr.b)):
            os.makedirs(os.path.join(d, side), exist_ok=True)
            shutil.copy(lib, os.path.join(d, side, "lib.so"))
        go("abipkgdiff", [os.path.join(d, "pa"), os.path.join(d, "pb")])
    if ctx.tier == "thorough" and i % 25 == 0 and shutil.which("valgrind"):
        for tool, args in (("abidw", ["--out-file", os.path.join(d, "vg.abi"), pr.a]), ("abidiff", [pr.a, pr.b]),
                           ("abidiff", ["--leaf-changes-only", pr.a, pr.b])):
            res = run.run(["valgrind", "-q", "--error-exitcode=96", "--track-origins=no", ctx.tool(tool, "plain")] + args, cwd=d,
                          timeout=1800, home=ctx.home())
            r.evaluations += 1
            r.count("memcheck_runs")
            if res.rc == 96:
                m = __import__("re").search(r"==\d+== ([A-Z][^\n]+)\n==\d+==\s+at 0x[0-9A-F]+: ([^\s(]+)", res.stderr)
                key = "memcheck:%s:%s" % ((m.group(1)[:40].strip().replace(" ", "-"), m.group(2)) if m else ("?", "?"))
                r.violate(key, "valgrind memcheck reports an error in %s (%s)" % (tool, what), run=res.brief())
    r.nontrivial = True
    r.digest = pr.digest
    r.add("configs", wl.describe_cfg(pr.cfg))
    r.sample = {"mutations": [e.kind for e in pr.expects], "config": wl.describe_cfg(pr.cfg), "executions": r.evaluations}
    return r
