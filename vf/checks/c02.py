"""C02 - ABIXML serialization preserves the ABI."""
import os
from .. import core, progen, cc, wl, run
from . import c01

PROP = "C02"
LEVEL = "exploration"
FLAVORS = ["plain"]
ENGINE = "cli-oracle"
TECHNIQUE = "metamorphic runtime oracle: abidiff B B.abi and abidw --abidiff B over generated programs x build matrix x lossless writer option sets"
LEVEL_TEXT = ("every generated binary is serialized by abidw under sampled subsets of the lossless writer options and compared with the "
              "binary by abidiff (default options); abidw --abidiff is run as "
              "well.  Held = status 0 and empty report on all cases explored.")
LEVEL_NOTE = "programs are those the generator can express; option sets are sampled, not enumerated"
ASSUMPTIONS = [LEVEL_NOTE, "HOME is an empty directory"]

WOPTS = ["--no-show-locs", "--no-parameter-names", "--no-write-default-sizes", "--type-id-style hash", "--no-corpus-path",
         "--annotate", "--load-all-types"]


def plan(tier):
    return {"n": 200 if tier == "quick" else 800, "floor": 40 if tier == "quick" else 160}


def rule(tier):
    return ("case = one generated program x one build configuration x %d writer option subsets of %s; per subset: abidiff B B.abi "
            "and once per case abidw --abidiff B; evaluations = tool verdicts judged; "
            "non-trivial = corpus non-trivial (C01 rule) and the document has >=1 class/union/enum declaration"
            % (3 if tier == "quick" else 8, WOPTS))


def wsubset(rng):
    k = rng.choice([0, 1, 2, 3, 4, 7])
    s = []
    for o in rng.sample(WOPTS, k):
        s.extend(o.split())
    return s


def make_binary(ctx, i, rng, r, d):
    lang = "cxx" if (rng.random() < 0.3 and c01.progen_has_cxx()) else "c"
    prog = progen.generate(rng, wl.gen_opts(rng, ctx.tier, lang=lang))
    cfg = wl.pick_config(rng)
    if lang == "c":
        c01.decorate_symbols(prog, rng, cfg["kind"])
    try:
        binp = cc.build(prog, d, **cfg)
    except cc.CompileError as ex:
        r.skip("compile-error:" + str(ex)[-300:])
        return None, None, None
    return prog, cfg, binp


def case(ctx, i):
    rng = ctx.rng(i)
    r = core.CaseResult()
    d = ctx.casedir(i)
    prog, cfg, binp = make_binary(ctx, i, rng, r, d)
    if prog is None:
        return r
    nsets = 3 if ctx.tier == "quick" else 8
    sets = [[]] + [wsubset(rng) for _ in range(nsets - 1)]
    has_decl = False
    for k, s in enumerate(sets):
        xml = os.path.join(d, "lib%d.abi" % k)
        w = wl.abidw(ctx, binp, xml, s)
        r.add("writer_option_sets", " ".join(s) or "(default)")
        if run.abnormal(w):
            wl.abnormal_violation(r, w, "abidw %s" % " ".join(s))
            continue
        if w.rc != 0:
            r.violate("oracle:C02:abidw-failed", "abidw %s exits %s" % (" ".join(s), w.rc), run=w.brief())
            continue
        txt = open(xml, errors="replace").read()
        if "<class-decl" in txt or "<union-decl" in txt or "<enum-decl" in txt:
            has_decl = True
        # the statement is about abidiff's verdict with its default options; reporting options on a
        # self-comparison (e.g. --non-reachable-types on --load-all-types documents) are C01's subject
        variants = [[]]
        for v in variants:
            res = wl.tool_run(ctx, "abidiff", v + [binp, xml], d)
            r.evaluations += 1
            if run.abnormal(res):
                wl.abnormal_violation(r, res, "abidiff B B.abi (writer options '%s')" % " ".join(s))
            elif res.rc != 0 or res.stdout.strip():
                optclass = "+".join(sorted(x.lstrip("-") for x in s if x.startswith("--"))) or "default"
                r.violate("oracle:C02:diff:%s:%s" % ("nrt" if v else "dflt", wl.report_feature(res.stdout)),
                          "abidiff %s B B.abi reports a change (exit %s) for a document written with '%s' (%s)"
                          % (" ".join(v), res.rc, " ".join(s), wl.describe_cfg(cfg)), run=res.brief(), writer_options=s)
    res = wl.tool_run(ctx, "abidw", ["--abidiff", binp], d)
    r.evaluations += 1
    if run.abnormal(res):
        wl.abnormal_violation(r, res, "abidw --abidiff")
    elif res.rc != 0:
        r.violate("oracle:C02:abidw--abidiff:%s" % wl.report_feature(res.stdout + res.stderr),
                  "abidw --abidiff exits %s (%s)" % (res.rc, wl.describe_cfg(cfg)), run=res.brief())
    r.nontrivial = wl.nontrivial_corpus(prog) and has_decl
    r.digest = core.digest(progen.source_digest(progen.render(prog)), cfg)
    r.add("configs", wl.describe_cfg(cfg))
    r.sample = {"config": wl.describe_cfg(cfg), "writer_option_sets": [" ".join(s) for s in sets],
                "functions": len(prog.exported_functions()), "named_types": len(prog.types),
                "source_digest": progen.source_digest(progen.render(prog))}
    return r
