"""C20 - type canonicalization agrees with structural equality (library's own debug monitors + API relations)."""
import os
import re
from .. import core, wl, run, progen, cc
from . import c01

PROP = "C20"
LEVEL = "exploration"
FLAVORS = ["dbg", "plain"]
ENGINE = "cli-oracle"
TECHNIQUE = "runtime monitoring with the library's own debug checks compiled in (-DWITH_DEBUG_TYPE_CANONICALIZATION -DWITH_DEBUG_SELF_COMPARISON): abidw --debug-tc and abidw --debug-abidiff over generated programs, plus canonical-type vs structural-equality relations through the public API"
LEVEL_TEXT = ("the 'dbg' flavor defines exactly what --enable-debug-type-canonicalization and --enable-debug-self-comparison define.  For "
              "each generated program (recursive types, decl-only/defined mixes across TUs, anonymous types, function pointers) 'abidw "
              "--debug-tc B' (structural vs canonical comparison of every type pair compared during canonicalization) and 'abidw "
              "--debug-abidiff B' (every type read back from the ABIXML must get the canonical type it had when read from DWARF) must "
              "exit 0 without printing an 'error:' diagnostic or aborting.  In addition harness ir_relations checks, for all pairs of "
              "types of one corpus, same canonical type <=> structurally equal.")
LEVEL_NOTE = "the deciding monitors are libabigail's own assertions/diagnostics, compiled in by the flavor; the API relation is checked on types that have a canonical type"
ASSUMPTIONS = [LEVEL_NOTE]


def plan(tier):
    return {"n": 150 if tier == "quick" else 600, "floor": 40 if tier == "quick" else 150}


def rule(tier):
    return ("case = one generated program (2-4 TUs in half of the cases) x build configuration: abidw --debug-tc, abidw --debug-abidiff "
            "(dbg flavor) and ir_relations B B (plain flavor); evaluations = monitor runs; non-trivial = corpus non-trivial (C01 rule); "
            "distinct by source digest + configuration")


def case(ctx, i):
    rng = ctx.rng(i)
    r = core.CaseResult()
    d = ctx.casedir(i)
    lang = "cxx" if (rng.random() < 0.3 and c01.progen_has_cxx()) else "c"
    prog = progen.generate(rng, wl.gen_opts(rng, ctx.tier, lang=lang, ntus=rng.choice([1, 2, 3, 4])))
    cfg = wl.pick_config(rng)
    try:
        binp = cc.build(prog, d, **cfg)
    except cc.CompileError:
        return r.skip("compile-error")
    what = wl.describe_cfg(cfg)
    for opt in ("--debug-tc", "--debug-abidiff"):
        res = wl.tool_run(ctx, "abidw", [opt, "--out-file", os.path.join(d, "o.abi"), binp], d, flavor="dbg", timeout=600)
        r.evaluations += 1
        if run.abnormal(res):
            r.violate(opt.strip("-") + ":" + res.key, "abidw %s terminated abnormally: %s (%s)" % (opt, res.key, what), run=res.brief())
            continue
        errs = [l for l in (res.stderr + res.stdout).splitlines() if re.search(r"\berror\b|wrong canonical|structural|mismatch", l, re.I)]
        feats = {}
        for l in errs:
            if "wrong canonical type" in l:
                kind = re.search(r"for '(function type|method type|typedef|struct|class|union|enum|const|volatile|\w+)", l)
                k = kind.group(1).replace(" ", "-") if kind else "?"
                if k not in ("function-type", "method-type", "typedef", "struct", "class", "union", "enum", "const", "volatile"):
                    k = "pointer-or-array" if ("*" in l or "[" in l) else "basic-or-other"
                feats.setdefault("wrong-canonical-type:" + k, l)
            elif "could be read back from the typeid file" in l:
                feats.setdefault("type-id-not-read-back-from-typeid-file", l)
            else:
                # the message without what it quotes (type names, ids, addresses): a stable key
                msg = re.sub(r"'[^']*'", "", l)
                msg = re.sub(r"\b(ptr|type-id|from second corpus).*", "", msg)
                feats.setdefault("other:" + re.sub(r"[^a-z]+", "-", msg.lower()).strip("-")[:60], l)
        if res.rc != 0 and not feats:
            feats["exit-%s" % res.rc] = "exit status %s" % res.rc
        for f, l in sorted(feats.items()):
            r.violate("oracle:C20:%s:%s" % (opt.strip("-"), f), "abidw %s (exit %s) prints: %s (%s)" % (opt, res.rc, l[:200], what), run=res.brief())
    res = wl.tool_run(ctx, "ir_relations", [binp, binp], d, flavor="plain", timeout=600)
    r.evaluations += 1
    if run.abnormal(res):
        wl.abnormal_violation(r, res, "ir_relations B B")
    else:
        for line in res.stdout.splitlines():
            if line.startswith("V ") and "canonical" in line:
                mm = re.match(r"V (\S+) count=(\d+) witness=(.*)", line)
                r.violate("oracle:C20:api:" + mm.group(1), "%s on %s pairs, e.g. %s (%s)" % (mm.group(1), mm.group(2), mm.group(3)[:200], what))
    r.nontrivial = wl.nontrivial_corpus(prog)
    r.digest = core.digest(progen.source_digest(progen.render(prog)), cfg)
    r.sample = {"config": what, "tus": prog.ntus, "types": len(prog.types)}
    return r
