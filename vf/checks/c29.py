"""C29 - abicompat judges only the interfaces the application uses."""
import os
import subprocess
from .. import core, wl, run, mutate, pairs, progen, cc

PROP = "C29"
LEVEL = "exploration"
FLAVORS = ["plain"]
ENGINE = "cli-oracle"
TECHNIQUE = "model-based runtime oracle: an application referencing a known subset U of a generated library's interfaces; mutations on interfaces in U must be reported by abicompat, mutations outside U must leave its output identical to 'abicompat app lib lib'"
LEVEL_TEXT = ("a generated library and an application that references a random subset U of its functions and variables (undefined "
              "symbols of the application, checked with readelf) are built; the library is then mutated on one interface - removed, "
              "parameter added/removed, return type changed, or a type reachable only from that interface changed.  If the interface "
              "is in U abicompat app lib1 lib2 must set bit 4 (bit 8 too for a removal); if it is not in U, status and output must be "
              "identical to 'abicompat app lib1 lib1'.  In weak mode (abicompat --weak-mode app lib2) an application built against the "
              "old header (and carrying its own definition of the mutated struct) must be reported when a struct reachable from a "
              "used interface changed.")
LEVEL_NOTE = "type mutations are only used when the mutated type is reachable from used interfaces only, or from unused interfaces only (never both), so that the expected verdict is certain"
ASSUMPTIONS = [LEVEL_NOTE, "the set U is read back from the application's undefined dynamic symbols"]

SIG = ["add-param", "remove-param", "change-return-type", "remove-function", "remove-variable"]
TYPEM = ["append-member", "insert-member", "remove-member", "change-member-type"]


def plan(tier):
    return {"n": 200 if tier == "quick" else 800, "floor": 50 if tier == "quick" else 192}


def rule(tier):
    return ("case = one library + application (uses 1..n-1 of the n interfaces) x one mutation targeted at a used or an unused "
            "interface (alternating); evaluations = abicompat verdicts judged; non-trivial = application uses >= 1 and leaves >= 1 "
            "interface unused; distinct by digest of sources + used set")


def build_app(d, lib, prog, used, name="app", instantiate=(), mode="nopie", pic_part=()):
    """mode nopie: position-dependent executable (library variables are reached through copy relocations: the symbols are
    *defined* in the application); pie: -fPIE -pie (variables through the GOT: undefined symbols); mixed: the references in
    `pic_part` live in a second, -fPIC compiled file of a position-dependent executable, so the application has defined
    (copy-relocated) and undefined variable symbols side by side."""
    src = os.path.join(d, name + ".c")
    first = [n for n in used if not (mode == "mixed" and n in pic_part)]
    second = [n for n in used if mode == "mixed" and n in pic_part]
    with open(src, "w") as fh:
        fh.write('#include "a/private.h"\n')
        if mode == "pie":
            fh.write("void *verif_refs[] = { %s };\n" % ", ".join(["(void*)&%s" % n for n in first] + ["(void*)0"]))
        else:
            # references from *code* of a position-dependent executable: the linker answers with copy relocations for variables
            fh.write("void *verif_get(int i)\n{\n  switch (i) {\n%s  }\n  return 0;\n}\n"
                     % "".join("  case %d: return (void*)&%s;\n" % (k, n) for k, n in enumerate(first)))
            fh.write("void *verif_refs[1];\n")
        # the application's own view of some types (weak mode compares what it expects with what the library provides)
        for k, spec in enumerate(instantiate):
            fh.write("%s verif_instance_%d;\n" % (spec, k))
        fh.write("extern void *verif_refs2[];\n" if second else "")
        fh.write("int main(void) { return verif_refs[0] == %s; }\n" % ("verif_refs2[0]" if second else "0"))
    out = os.path.join(d, name)
    objs = []
    flags = ["-fPIE"] if mode == "pie" else ["-fno-pie"]
    jobs = [(src, flags)]
    if second:
        src2 = os.path.join(d, name + "2.c")
        with open(src2, "w") as fh:
            fh.write('#include "a/private.h"\n')
            fh.write("void *verif_refs2[] = { %s };\n" % ", ".join("(void*)&%s" % n for n in second))
        jobs.append((src2, ["-fPIC"]))
    for sfile, fl in jobs:
        o = sfile[:-2] + ".o"
        rr = subprocess.run(["gcc", "-g", "-w", "-O0"] + fl + ["-c", "-o", o, sfile, "-I", d], cwd=d, stdout=subprocess.PIPE, stderr=subprocess.STDOUT)
        if rr.returncode != 0:
            raise cc.CompileError(rr.stdout.decode(errors="replace")[-400:])
        objs.append(o)
    rr = subprocess.run(["gcc", "-pie" if mode == "pie" else "-no-pie", "-o", out] + objs + [lib, "-Wl,-rpath," + os.path.dirname(lib)],
                        cwd=d, stdout=subprocess.PIPE, stderr=subprocess.STDOUT)
    if rr.returncode != 0:
        raise cc.CompileError(rr.stdout.decode(errors="replace")[-400:])
    return out


def case(ctx, i):
    rng = ctx.rng(i)
    r = core.CaseResult()
    d = ctx.casedir(i)
    want_used = (i % 2 == 0)
    var_focus = (i % 3 == 0)        # every third case: many variables, mutations aimed at variables
    p = q = e = None
    U = None
    for attempt in range(10):
        p = progen.generate(rng, wl.gen_opts(rng, ctx.tier, nfuncs=rng.randint(4, 9), nvars=rng.randint(3, 7) if var_focus else rng.randint(1, 4)))
        ifaces = [x.name for x in p.exported_functions() + p.exported_variables()]
        if len(ifaces) < 3:
            continue
        U = set(rng.sample(ifaces, rng.randint(1, len(ifaces) - 1)))
        if var_focus and rng.random() < 0.6:
            U |= {v.name for v in p.exported_variables()}
            if len(U) == len(ifaces):
                U.discard(rng.choice([f.name for f in p.exported_functions()] or sorted(U)))
        for k in range(30):
            kind = rng.choice(["remove-variable", "remove-variable"] + TYPEM if var_focus else SIG + TYPEM)
            res = mutate.BREAKING[kind](p, rng)
            if not res:
                continue
            q2, e2 = res
            aff = set(e2.affected)
            if kind in TYPEM:
                # certain only if all users are on one side
                if aff <= U:
                    side = True
                elif not (aff & U):
                    side = False
                else:
                    continue
                # the mutated type must not be reachable from the other side through another type: users_of() covers reachability
            else:
                side = e2.affected[0] in U
            if side != want_used:
                continue
            q, e = q2, e2
            break
        if q is not None:
            break
    if q is None:
        return r.skip("no-suitable-mutation")
    cfg = {"family": rng.choice(["gcc", "clang"]), "dwarf": rng.choice([4, 5]), "opt": "-O0", "kind": "so"}
    try:
        a = cc.build(p, os.path.join(d, "a"), **cfg)
        b = cc.build(q, os.path.join(d, "b"), **cfg)
        inst = []
        if e.type_name and e.kind in TYPEM:
            rec = p.find_type(e.type_name.split(":", 1)[1])
            if rec is not None and not getattr(rec, "flex", False):
                inst = [rec.spec()]
        mode = rng.choice(["nopie", "nopie", "pie", "mixed", "mixed"] if not var_focus else ["mixed", "mixed", "mixed", "nopie", "pie"])
        pic_part = set(x for x in sorted(U) if rng.random() < 0.5)
        if var_focus and want_used and rng.random() < 0.6:
            # the mutated variable through a copy relocation, every other used variable through the GOT (and the other way round)
            vnames = {v.name for v in p.exported_variables()}
            mine = set(e.affected) & vnames
            others = (U & vnames) - mine
            pic_part = (pic_part - mine) | others if rng.random() < 0.7 else (pic_part | mine) - others
        app = build_app(d, a, p, sorted(U), instantiate=inst, mode=mode, pic_part=pic_part)
    except cc.CompileError as ex:
        return r.skip("compile-error:" + str(ex)[-200:])
    what = "%s on %s (%s interface); app (%s) uses %d of %d; %s" % (e.kind, e.affected[:2], "used" if want_used else "unused", mode, len(U),
                                                                   len(p.exported_functions() + p.exported_variables()), wl.describe_cfg(cfg))
    base = wl.tool_run(ctx, "abicompat", [app, a, a], d)
    res = wl.tool_run(ctx, "abicompat", [app, a, b], d)
    for x in (base, res):
        if run.abnormal(x):
            wl.abnormal_violation(r, x, "abicompat [%s]" % what)
            return r
    r.evaluations += 1
    r.add("targets", ("used" if want_used else "unused") + ":" + e.kind)
    if base.rc != 0 or base.stdout.strip():
        r.violate("oracle:C29:self-compat-not-clean", "abicompat app lib lib exits %s and prints %d bytes [%s]" % (base.rc, len(base.stdout), what), run=base.brief())
    if want_used:
        if not (res.rc is not None and res.rc & 4):
            r.violate("oracle:C29:used-interface-change-not-reported:" + e.kind, "abicompat exits %s although an interface the application uses changed [%s]" % (res.rc, what), run=res.brief())
        elif e.removed and not (res.rc & 8):
            r.violate("oracle:C29:used-interface-removal-without-bit8", "abicompat exits %s for the removal of a used interface [%s]" % (res.rc, what), run=res.brief())
        # weak mode: the application was built against v1 of the headers and carries its own definition of the
        # mutated struct; the library is v2.  (Weak mode compares *types* as the application sees them with the
        # library's; a changed parameter list is not something the application's debug info describes.)
        if inst:
            wk0 = wl.tool_run(ctx, "abicompat", ["--weak-mode", app, a], d)
            wk = wl.tool_run(ctx, "abicompat", ["--weak-mode", app, b], d)
            r.evaluations += 1
            if run.abnormal(wk):
                wl.abnormal_violation(r, wk, "abicompat --weak-mode [%s]" % what)
            elif wk0.rc == 0 and not (wk.rc is not None and wk.rc & 4):
                vnames = {v.name for v in p.exported_variables()}
                via = "through-a-variable" if (set(e.affected) & U & vnames) else "through-functions-only"
                r.violate("oracle:C29:weak-mode-mismatch-not-reported:%s:%s" % (e.kind, via),
                          "abicompat --weak-mode exits %s although the application's %s differs from the library's for a used interface [%s]"
                          % (wk.rc, e.type_name, what), run=wk.brief())
    else:
        if res.rc != base.rc or res.out != base.out:
            r.violate("oracle:C29:unused-interface-change-alters-verdict:" + e.kind,
                      "a change confined to interfaces the application does not use alters abicompat's verdict: status %s -> %s, %d -> %d bytes [%s]"
                      % (base.rc, res.rc, len(base.out), len(res.out), what), run=res.brief())
    r.nontrivial = True
    r.digest = core.digest(progen.source_digest(progen.render(p)), progen.source_digest(progen.render(q)), sorted(U))
    r.sample = {"mutation": e.to_json(), "used": sorted(U)[:5], "target_used": want_used, "status": res.rc}
    return r
