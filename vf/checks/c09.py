"""C09 - an unreadable input is never reported as 'no change' (fault enumeration over truncation points)."""
import os
import subprocess
from .. import core, wl, run, progen, cc, abixml
from . import c08

PROP = "C09"
LEVEL = "fault_enumeration"
FLAVORS = ["plain"]
ENGINE = "fault-injection"
TECHNIQUE = "fault enumeration: line-boundary and random byte-boundary prefixes of abidw documents that expat rejects, plus structural corruptions, empty, missing and non-ABI files, each compared against the original in both argument orders; the error bit must be set"
LEVEL_TEXT = ("crash points of an abidw run are modelled by the proper prefixes of its output.  For each document every prefix ending at a "
              "line boundary (at most 160, thorough 320) plus random byte boundaries (120, thorough 300) is taken; prefixes "
              "that are still complete documents for expat are excluded.  Each unloadable file is given to abidiff as first and as second "
              "argument against the original document and against the original ELF, and to abicompat as application / library.  The exit "
              "status must have the error bit (1).")
LEVEL_NOTE = "'unloadable' is decided by expat (independent parser), by the file being missing, empty or not an ABI file; corruptions are restricted to classes every XML parser rejects"
ASSUMPTIONS = [LEVEL_NOTE]


def plan(tier):
    return {"n": 6 if tier == "quick" else 12, "floor": 100 if tier == "quick" else 600, "procs": 16, "samples": 3}


def rule(tier):
    return ("case = one abidw document (generated program); faults = all line-boundary prefixes (quick capped at 160 evenly spread + 120 "
            "random byte boundaries) + 60 (thorough 120) corruptions + empty/missing/non-ABI files, "
            "x 2 argument orders x {XML, ELF} counterpart (+ abicompat roles); evaluations = tool runs judged; non-trivial fault = "
            "distinct truncation point or corruption that expat rejects; counted over all documents")


def corruptions(data, rng, n):
    out = []
    text = data
    for k in range(n):
        kind = rng.choice(["del-gt", "del-quote", "del-close-tag", "insert-lt", "dup-attr", "del-open-root"])
        if kind == "del-gt":
            idx = [i for i in range(len(text)) if text[i:i + 1] == b">"]
            p = rng.choice(idx[:-1] or idx)
            out.append((kind, text[:p] + text[p + 1:]))
        elif kind == "del-quote":
            idx = [i for i in range(len(text)) if text[i:i + 1] == b"'"]
            p = rng.choice(idx)
            out.append((kind, text[:p] + text[p + 1:]))
        elif kind == "del-close-tag":
            lines = text.split(b"\n")
            idx = [i for i, l in enumerate(lines) if l.strip().startswith(b"</") and b"abi-corpus" not in l]
            if not idx:
                continue
            p = rng.choice(idx)
            out.append((kind, b"\n".join(lines[:p] + lines[p + 1:])))
        elif kind == "insert-lt":
            p = rng.randrange(20, max(21, len(text) - 20))
            out.append((kind, text[:p] + b"<" + text[p:]))
        elif kind == "dup-attr":
            p = text.find(b" id='", rng.randrange(0, max(1, len(text) - 10)))
            if p < 0:
                continue
            e = text.find(b"'", p + 5)
            out.append((kind, text[:e + 1] + text[p:e + 1] + text[e + 1:]))
        else:
            out.append((kind, text.replace(b"<abi-corpus", b"abi-corpus", 1)))
    return out


def judge(r, res, tool, what):
    r.evaluations += 1
    if run.abnormal(res):
        wl.abnormal_violation(r, res, "%s %s" % (tool, what))
        return
    for b in c08.lattice(res.rc):
        r.count("lattice_violations_seen:" + b)
    if not (res.rc is not None and res.rc & 1):
        cls = what.split(":")[0].split("@")[0].split(" ")[0]
        r.violate("oracle:C09:no-error-bit:%s:%s:exit%s" % (tool, cls, res.rc),
                  "%s exits %s (error bit not set) although an input is unloadable: %s" % (tool, res.rc, what), run=res.brief())


def case(ctx, i):
    rng = ctx.rng(i)
    r = core.CaseResult()
    d = ctx.casedir(i)
    prog = progen.generate(rng, wl.gen_opts(rng, ctx.tier, ntypes=rng.randint(4, 12), nfuncs=rng.randint(2, 6)))
    try:
        lib = cc.build(prog, d, family=rng.choice(["gcc", "clang"]), dwarf=rng.choice([4, 5]), kind="so")
    except cc.CompileError as ex:
        return r.skip("compile-error")
    xml = os.path.join(d, "orig.abi")
    w = wl.abidw(ctx, lib, xml, rng.choice([[], ["--no-show-locs"], ["--annotate"]]))
    if run.abnormal(w) or w.rc != 0:
        return r.skip("abidw-failed")
    data = open(xml, "rb").read()
    faults = []
    # ---- prefixes
    bounds = [k + 1 for k in range(len(data)) if data[k:k + 1] == b"\n"]
    nb, nr = (160, 120) if ctx.tier == "quick" else (320, 300)
    if len(bounds) > nb:
        step = len(bounds) / float(nb)
        bounds = sorted({bounds[int(k * step)] for k in range(nb)})
    cut = sorted(set(bounds) | {rng.randrange(1, len(data)) for _ in range(nr)})
    regions = set()
    for c in cut:
        if c >= len(data):
            continue
        pre = data[:c]
        ok, _ = abixml.well_formed(pre)
        if ok:
            r.count("prefix_still_well_formed")
            continue
        faults.append(("prefix@%d" % c, pre))
        first_nl = data.find(b"\n")
        regions.add("root-start-tag" if c <= first_nl else "symbol-table" if pre.rfind(b"<abi-instr") < 0 else
                    "last-line" if c > data.rstrip(b"\n").rfind(b"\n") else "abi-instr-body")
    for kind, blob in corruptions(data, rng, 60 if ctx.tier == "quick" else 120):
        ok, _ = abixml.well_formed(blob)
        if not ok:
            faults.append(("corrupt:" + kind, blob))
    faults.append(("empty:", b""))
    faults.append(("nonabi:text", b"hello, this is not an ABI file\n"))
    faults.append(("nonabi:png", b"\x89PNG\r\n\x1a\n" + b"\0" * 64))
    faults.append(("nonabi:xml", b"<?xml version='1.0'?><html><body/></html>\n"))
    for name, _b in faults:
        r.add("fault_classes", name.split("@")[0].split(":")[0] + (":" + name.split(":")[1] if name.startswith(("corrupt", "nonabi")) else ""))
    for reg in regions:
        r.add("truncation_regions", reg)
    bad = os.path.join(d, "bad.abi")
    nfaults = 0
    for name, blob in faults:
        with open(bad, "wb") as fh:
            fh.write(blob)
        nfaults += 1
        partner = xml if nfaults % 2 else lib
        for a, b in ((bad, partner), (partner, bad)):
            res = wl.tool_run(ctx, "abidiff", [a, b], d)
            judge(r, res, "abidiff", "%s as %s argument against %s" % (name, "first" if a == bad else "second", "XML" if partner == xml else "ELF"))
    # missing file
    for a, b in (("/nonexistent/x.abi", xml), (lib, "/nonexistent/x.abi")):
        res = wl.tool_run(ctx, "abidiff", [a, b], d)
        judge(r, res, "abidiff", "missing: file")
    # abicompat: application / library inputs replaced by unloadable files
    app = os.path.join(d, "app")
    src = os.path.join(d, "app.c")
    fns = prog.exported_functions()[:2]
    open(src, "w").write('#include "private.h"\nvoid *refs[] = {%s};\nint main(void){return refs[0]==0;}\n' % ", ".join("(void*)&" + f.name for f in fns))
    if fns and subprocess.run(["gcc", "-g", "-w", "-o", app, src, lib, "-Wl,-rpath," + d], cwd=d, stdout=subprocess.DEVNULL, stderr=subprocess.DEVNULL).returncode == 0:
        sample = [f for f in faults if f[0].startswith(("empty", "nonabi"))] + rng.sample(faults, min(12, len(faults)))
        for name, blob in sample:
            with open(bad, "wb") as fh:
                fh.write(blob)
            for argv, role in (([bad, lib, lib], "application"), ([app, bad, lib], "first library"), ([app, lib, bad], "second library")):
                res = wl.tool_run(ctx, "abicompat", argv, d)
                judge(r, res, "abicompat", "%s as %s" % (name, role))
        for argv in (["/nonexistent/app", lib, lib], [app, "/nonexistent/lib.so", lib], [app, lib, "/nonexistent/lib.so"]):
            res = wl.tool_run(ctx, "abicompat", argv, d)
            judge(r, res, "abicompat", "missing: file")
    r.nontrivial = nfaults > 10
    r.nt_count = nfaults
    r.digest = core.digest(progen.source_digest(progen.render(prog)))
    r.count("faults", nfaults)
    r.sample = {"document_bytes": len(data), "faults": nfaults, "truncation_regions": sorted(regions),
                "example_faults": [f[0] for f in faults[:3]] + [f[0] for f in faults[-5:]]}
    return r


def count_nontrivial(results):
    return sum(getattr(r, "nt_count", 0) for r in results)
