"""Shared driver for the API-harness checks (C39, C41, C42): each case is one harness
process that evaluates many inputs against a reference model and prints
'V <key> count=<n> witness=<w>' lines plus a SUMMARY line."""
import re
from .. import core, run


def run_job(ctx, i, prop, harness, args, label, timeout=1800, hang_is_violation=True):
    r = core.CaseResult()
    d = ctx.casedir(i)
    res = run.run([ctx.tool(harness)] + [str(a) for a in args], cwd=d, timeout=timeout)
    if res.timeout:
        return r.inconclusive("timeout:" + label), res
    hang = re.search(r"VERIF-HANG (.*)", res.stdout + res.stderr)
    if hang:
        fn = hang.group(1).split("(")[0].strip().strip('"').split(":")[0]
        r.violate("hang:%s" % fn, "call did not return within 20 s: %s" % hang.group(1)[:300], job=label)
        r.nontrivial = True
        r.digest = label
        return r, res
    if run.abnormal(res):
        cur = re.search(r"VERIF-CURRENT (.*)", res.stderr)
        r.violate(res.key, "harness %s terminated abnormally (%s) on %s"
                  % (harness, res.key, cur.group(1)[:400] if cur else label), run=res.brief())
        r.nontrivial = True
        r.digest = label
        return r, res
    if res.rc != 0:
        raise RuntimeError("%s failed: %r" % (harness, res.brief()))
    m = re.search(r"SUMMARY (.*)", res.stdout)
    summ = dict(kv.split("=") for kv in m.group(1).split())
    evals, nontriv = int(summ["evals"]), int(summ["nontrivial"])
    r.evaluations = evals
    r.nt_count = nontriv
    r.nontrivial = nontriv > 0
    r.digest = label
    for k, v in summ.items():
        if v.isdigit():
            r.count(label.split()[0] + ":" + k, int(v))
    for line in res.stdout.splitlines():
        if line.startswith("V "):
            mm = re.match(r"V (\S+) count=(\d+) witness=(.*)", line)
            key, cnt, wit = mm.group(1), int(mm.group(2)), mm.group(3)
            r.count("violating:" + key, cnt)
            r.violate("oracle:%s:%s" % (prop, key), "%s on %d inputs of job [%s], e.g. %s" % (key, cnt, label, wit[:500]),
                      witness=wit, job=label)
    r.sample = {"job": label, "summary": summ}
    return r, res


def count_nontrivial(results):
    return sum(getattr(r, "nt_count", 0) for r in results)
