"""C15 - recorded type layouts equal the compiler's layouts."""
import os
from .. import core, progen, cc, wl, run, abixml, layout
from . import c01

PROP = "C15"
LEVEL = "exploration"
FLAVORS = ["plain"]
ENGINE = "cli-oracle"
TECHNIQUE = "differential runtime oracle: abidw size-in-bits / layout-offset-in-bits vs sizeof / offsetof / bit-field scans measured by probe code built with the same compiler and flags"
LEVEL_TEXT = ("for every generated program a probe translation unit, compiled with the same compiler and flags, prints sizeof of every "
              "named type and the byte/bit offset of every data member (bit-fields by an all-ones scan of a zeroed object); the values are "
              "compared with the ABIXML of the program, resolved by an expat-based reader.  Multi-TU programs with same-named but "
              "different TU-local structs are checked per using function.  Held = no disagreement on the types explored.")
LEVEL_NOTE = "empty bases / [[no_unique_address]] are not generated; only types that reach the document (reachable from the exported interface) are compared"
ASSUMPTIONS = [LEVEL_NOTE, "the compiler's own sizeof/offsetof are ground truth", "x86-64 little-endian bit numbering"]


def plan(tier):
    return {"n": 250 if tier == "quick" else 1000, "floor": 50 if tier == "quick" else 200}


def rule(tier):
    return ("case = one generated program x build configuration (gcc/clang, DWARF 4/5, -O0/-O1); evaluations = (type size | member "
            "offset | member size) comparisons; non-trivial = the program has >=1 compared record with a bit-field, a nested or "
            "anonymous member, or a base class; distinct by source digest + configuration")


def add_same_name_locals(prog, rng):
    """Two different TU-local structs with the same name, each used (by pointer or by value) by one function of its TU.
    Either the two have different members, or the same member names and types and the same size and only the member
    offsets differ (bit-field widths permuted)."""
    name = "s_%s_dup" % prog.nonce
    recs = []
    same_shape = rng.random() < 0.5
    by_value = rng.random() < 0.5
    if same_shape:
        base = progen.Builtin(rng.choice(["unsigned int", "int", "unsigned long long"]))
        total = 64 if base.name == "unsigned long long" else 32
        n = rng.randint(2, 4)
        cuts = sorted(rng.sample(range(1, total - 1), n - 1))
        widths = [b - a for a, b in zip([0] + cuts, cuts + [total])]
        perm = widths[:]
        for _ in range(8):
            rng.shuffle(perm)
            if perm != widths:
                break
        tail = [progen.Builtin(rng.choice(progen.BUILTINS)) for _ in range(rng.randint(0, 2))]
    for tu in (0, 1):
        fields = []
        if same_shape:
            for k, w in enumerate(widths if tu == 0 else perm):
                fields.append(progen.Field("d_%s_%d" % (prog.nonce, k), base, bits=w))
            for k, t in enumerate(tail):
                fields.append(progen.Field("e_%s_%d" % (prog.nonce, k), t))
        else:
            for k in range(rng.randint(1, 4)):
                fields.append(progen.Field("d%d_%s_%d" % (tu, prog.nonce, k), progen.Builtin(rng.choice(progen.BUILTINS))))
            if tu == 1:
                fields.insert(0, progen.Field("d1_%s_x" % prog.nonce, progen.Builtin("double")))
        rec = progen.Record("struct", name, fields)
        rec.where = "tu%d" % tu
        prog.types.append(rec)
        ft = progen.FuncType(progen.Void(), [rec if by_value else progen.Pointer(rec)])
        f = progen.Function("f_%s_dup%d" % (prog.nonce, tu), ft, ["p"], tu=tu)
        prog.functions.append(f)
        recs.append((rec, f))
    return recs


def compare_record(doc, node, key, lay, r, what, members, ksfx=""):
    size, _o, _t = doc.record_layout(node)
    r.evaluations += 1
    if key in lay.size and size is not None and size != lay.size[key] * 8:
        r.violate("oracle:C15:size:" + feature_of(node) + ksfx, "%s: size-in-bits=%s but the compiler says sizeof=%d bytes (%s)" % (key, size, lay.size[key], what))
    for path, f in members:
        if (key, path) not in lay.off:
            continue
        cur, base, ok, tid = node, 0, True, None
        for part in path.split("."):
            _s, offs, tys = doc.record_layout(cur)
            if part not in offs:
                ok = False
                break
            base += offs[part]
            tid = tys[part]
            cur = doc.strip_typedefs_node(tid)
        r.evaluations += 1
        if not ok:
            r.violate("oracle:C15:member-missing" + ksfx, "%s: member %s is missing from the recorded type (%s)" % (key, path, what))
            continue
        if base != lay.off[(key, path)]:
            kind = "bitfield" if f.bits is not None else "member"
            r.violate("oracle:C15:offset:%s%s" % (kind, ksfx), "%s.%s: layout-offset-in-bits=%d but the compiler places it at bit %d (%s)"
                      % (key, path, base, lay.off[(key, path)], what))
        if f.bits is None and (key, path) in lay.width:
            sz = doc.size_of(tid)
            r.evaluations += 1
            if sz is not None and sz != lay.width[(key, path)]:
                r.violate("oracle:C15:member-size" + ksfx, "%s.%s: recorded member type size %d bits, compiler says %d (%s)"
                          % (key, path, sz, lay.width[(key, path)], what))


def feature_of(node):
    return node.tag


def interesting(rec):
    for f in rec.fields:
        if f.bits is not None or (isinstance(f.type, progen.Record) and f.type.name is None):
            return True
        if isinstance(progen.resolve(f.type), progen.Record):
            return True
    return bool(rec.bases)


def case(ctx, i):
    rng = ctx.rng(i)
    r = core.CaseResult()
    d = ctx.casedir(i)
    lang = "cxx" if (rng.random() < 0.3 and c01.progen_has_cxx()) else "c"
    prog = progen.generate(rng, wl.gen_opts(rng, ctx.tier, lang=lang, bitfields=True))
    cfg = wl.pick_config(rng)
    dups = []
    if lang == "c" and prog.ntus >= 2 and rng.random() < 0.5:
        dups = add_same_name_locals(prog, rng)
    try:
        binp = cc.build(prog, d, **cfg)
        lay = layout.run_probe(prog, d, cfg["family"], cfg["opt"])
        dup_lays = [layout.run_probe(prog, d, cfg["family"], cfg["opt"], tu=tu) for tu in (0, 1)] if dups else []
    except cc.CompileError as ex:
        return r.skip("compile-error:" + str(ex)[-400:])
    xml = os.path.join(d, "out.abi")
    w = wl.abidw(ctx, binp, xml)
    if run.abnormal(w) or w.rc != 0:
        return r.skip("abidw-failed")
    doc = abixml.Doc(open(xml, "rb").read())
    what = wl.describe_cfg(cfg)
    compared = 0
    nt = False
    for t in prog.types:
        if getattr(t, "where", "public").startswith("tu"):
            continue
        key = t.key()
        if isinstance(t, progen.Record) and not t.opaque:
            nodes = [n for n in doc.root.walk() if n.tag in ("class-decl", "union-decl") and n.attrs.get("name") == t.name
                     and n.attrs.get("is-declaration-only") != "yes"]
            for node in nodes:
                compare_record(doc, node, key, lay, r, what, layout.member_paths(t))
                compared += 1
                nt = nt or interesting(t)
        elif isinstance(t, progen.Enum):
            for n in doc.root.walk():
                if n.tag == "enum-decl" and n.attrs.get("name") == t.name:
                    sz = doc.size_of(n.attrs["id"])
                    r.evaluations += 1
                    compared += 1
                    if sz is not None and key in lay.size and sz != lay.size[key] * 8:
                        r.violate("oracle:C15:size:enum-decl", "%s: recorded size %d bits, compiler sizeof=%d (%s)" % (key, sz, lay.size[key], what))
        elif isinstance(t, progen.Typedef):
            for n in doc.root.walk():
                if n.tag == "typedef-decl" and n.attrs.get("name") == t.name:
                    sz = doc.size_of(n.attrs["id"])
                    r.evaluations += 1
                    compared += 1
                    if sz is not None and key in lay.size and sz != lay.size[key] * 8:
                        r.violate("oracle:C15:size:typedef-decl", "%s: recorded size %d bits, compiler sizeof=%d (%s)" % (key, sz, lay.size[key], what))
    # same-named TU-local structs: the definition reached from the function that uses it
    for (rec, fn), dl in zip(dups, dup_lays):
        fnode = [n for n in doc.functions if n.attrs.get("name") == fn.name]
        if not fnode:
            r.count("dup_function_missing")
            continue
        ptid = fnode[0].find("parameter")[0].attrs["type-id"]
        pn = doc.strip_typedefs_node(ptid)
        if pn is None or pn.tag not in ("pointer-type-def", "class-decl"):
            continue
        target = pn if pn.tag == "class-decl" else doc.strip_typedefs_node(pn.attrs["type-id"])
        if target is None or target.tag != "class-decl" or target.attrs.get("is-declaration-only") == "yes":
            r.count("dup_struct_decl_only")
            continue
        compare_record(doc, target, rec.key(), dl, r, what + ", same-named TU-local struct reached from " + fn.name, layout.member_paths(rec),
                       ksfx=":same-name-tu-local-struct" + ("-by-value" if pn.tag == "class-decl" else ""))
        r.count("same_name_structs_compared")
        nt = True
    if compared == 0:
        return r.skip("nothing-to-compare")
    r.nontrivial = nt
    r.digest = core.digest(progen.source_digest(progen.render(prog)), cfg)
    r.add("configs", what)
    r.count("types_compared", compared)
    r.sample = {"config": what, "types_compared": compared, "same_name_locals": bool(dups),
                "example_sizes": dict(list(lay.size.items())[:4]), "example_offsets": {"%s.%s" % k: v for k, v in list(lay.off.items())[:6]}}
    return r
