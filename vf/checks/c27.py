"""C27 - whitelists and keep/drop patterns select exactly the named interfaces."""
import os
import re
import subprocess
from .. import core, wl, run, progen, cc, abixml, readelf, report

PROP = "C27"
LEVEL = "exploration"
FLAVORS = ["plain"]
ENGINE = "cli-oracle"
TECHNIQUE = "differential runtime oracle: abidw/abidiff --kmi-whitelist and abidiff --keep-fn/--drop-fn/--keep-var/--drop-var against set arithmetic over readelf's public symbols (whitelists) and Python re over the model's names (patterns restricted to the ERE/re common subset)"
LEVEL_TEXT = ("(a) a whitelist naming a random subset of the exported symbols plus absent names - some symbols renamed with objcopy so "
              "that they contain regular-expression metacharacters (. $ + ( ) | ^ * ?) - is given to abidw and to 'abidiff W B empty.so': "
              "the functions/variables and symbol-table entries of the output, and the removed interfaces of the comparison, must be "
              "exactly (public symbols) n (names in W).  (b) --keep-fn/--drop-fn/--keep-var/--drop-var with generated patterns: the removed "
              "functions/variables of 'abidiff B empty.so' must be exactly those the patterns keep, computed with Python re.")
LEVEL_NOTE = "names that the whitelist file format cannot carry ([ ] { } = , ; # white space, backslash) are not used; patterns are literals, anchors, simple classes and alternations (same meaning in POSIX ERE and Python re)"
ASSUMPTIONS = [LEVEL_NOTE, "readelf is ground truth for the public symbols"]

META = [".", "$", "+", "(", ")", "|", "^", "*", "?"]


def plan(tier):
    return {"n": 200 if tier == "quick" else 800, "floor": 50 if tier == "quick" else 213}


def rule(tier):
    return ("case = one generated program (some symbols renamed to carry regexp metacharacters) x one random whitelist x one random "
            "keep/drop pattern set; evaluations = set comparisons; non-trivial = the whitelist keeps a proper non-empty subset / the "
            "patterns keep a proper non-empty subset; distinct by source digest + whitelist + patterns")


def empty_lib(d):
    src = os.path.join(d, "empty.c")
    # not literally empty: abidiff refuses a binary without any symbol
    open(src, "w").write("int verif_other_function(void) { return 0; }\n")
    out = os.path.join(d, "empty.so")
    subprocess.run(["gcc", "-g", "-shared", "-fPIC", "-o", out, src], check=True)
    return out


def removed_sets(rep):
    fns = {(e.symbols() or [e.text])[0] for e in rep.entries("fn-removed") + rep.entries("fsym-removed")}
    vs = {(e.symbols() or [e.text])[0] for e in rep.entries("var-removed") + rep.entries("vsym-removed")}
    return fns, vs


def case(ctx, i):
    rng = ctx.rng(i)
    r = core.CaseResult()
    d = ctx.casedir(i)
    prog = progen.generate(rng, wl.gen_opts(rng, ctx.tier, nfuncs=rng.randint(4, 10), nvars=rng.randint(1, 5)))
    renames = {}
    targets = [x for x in prog.exported_functions() + prog.exported_variables()]
    for x in rng.sample(targets, min(len(targets), rng.randint(0, 3))):
        m = rng.choice(META)
        renames[x.name] = x.name + m + rng.choice(["x", "1", m])

    def post(objs):
        for o in objs:
            for old, new in renames.items():
                subprocess.run(["objcopy", "--redefine-sym", "%s=%s" % (old, new), o], check=True)
    try:
        lib = cc.build(prog, d, family=rng.choice(["gcc", "clang"]), dwarf=rng.choice([4, 5]), kind="so", post_compile=post)
        empty = empty_lib(d)
    except (cc.CompileError, subprocess.CalledProcessError):
        return r.skip("compile-error")
    efns, evars = readelf.public_symbols(lib)
    F, V = {s.name for s in efns}, {s.name for s in evars}
    allsyms = sorted(F | V)
    if len(allsyms) < 3:
        return r.skip("too-few-symbols")
    # ---------------- (a) whitelist
    keep = set(rng.sample(allsyms, rng.randint(1, len(allsyms) - 1)))
    absent = {"absent_%s_%d" % (prog.nonce, k) for k in range(rng.randint(0, 3))}
    wlf = os.path.join(d, "kmi.wl")
    with open(wlf, "w") as fh:
        fh.write("[abi_whitelist]\n")
        fh.write("  verif_other_function\n")    # keeps the reference library's only symbol: abidiff refuses an empty symbol table
        for n in sorted(keep | absent, key=lambda z: rng.random()):
            fh.write("  %s\n" % n)
    what = "whitelist keeps %d of %d symbols (%d with metacharacters)" % (len(keep), len(allsyms), len([n for n in keep if any(m in n for m in META)]))
    xml = os.path.join(d, "wl.abi")
    w = wl.abidw(ctx, lib, xml, ["--kmi-whitelist", wlf])
    if run.abnormal(w):
        wl.abnormal_violation(r, w, "abidw --kmi-whitelist")
        return r
    if w.rc == 0 and os.path.exists(xml):
        doc = abixml.Doc(open(xml, "rb").read())
        got_syms = {n.attrs.get("name") for n in doc.fn_syms + doc.var_syms}
        got_decl = {n.attrs.get("elf-symbol-id", "").split("@")[0] for n in doc.functions + doc.variables if n.attrs.get("elf-symbol-id")}
        r.evaluations += 2
        if got_syms != keep:
            r.violate("oracle:C27:whitelist:abidw-symbols:%s" % feat(got_syms ^ keep),
                      "abidw --kmi-whitelist: symbol tables hold %s, expected exactly %s (%s)" % (sorted(got_syms)[:6], sorted(keep)[:6], what))
        if not got_decl <= keep:
            r.violate("oracle:C27:whitelist:abidw-decls:%s" % feat(got_decl - keep),
                      "abidw --kmi-whitelist: declarations for %s are present but not whitelisted (%s)" % (sorted(got_decl - keep)[:6], what))
    res = wl.tool_run(ctx, "abidiff", ["--kmi-whitelist", wlf, lib, empty], d)
    if run.abnormal(res):
        wl.abnormal_violation(r, res, "abidiff --kmi-whitelist")
    else:
        rep = report.Report(res.stdout)
        if not rep.unparsed:
            rf, rv = removed_sets(rep)
            got = {x.split("@")[0] for x in rf | rv}
            r.evaluations += 1
            if got != keep:
                r.violate("oracle:C27:whitelist:abidiff-removed:%s" % feat(got ^ keep),
                          "abidiff --kmi-whitelist B empty.so lists %s as removed, expected exactly %s (%s)" % (sorted(got)[:6], sorted(keep)[:6], what))
    # ---------------- (b) keep / drop
    fnames = sorted(x.name for x in prog.exported_functions() if x.name not in renames)
    vnames = sorted(x.name for x in prog.exported_variables() if x.name not in renames)
    nt_b = False
    # an interface that the patterns drop must not be compared at any level: neither as a declaration nor
    # as a bare ELF symbol ("... symbol not referenced by debug info")
    for label, names, keepopt, dropopt, secs in (("fn", fnames, "--keep-fn", "--drop-fn", ("fn-removed", "fsym-removed")),
                                                 ("var", vnames, "--keep-var", "--drop-var", ("var-removed", "vsym-removed"))):
        if len(names) < 2:
            continue
        pats = []
        mode = rng.choice(["keep", "drop", "both"])
        for _ in range(rng.randint(1, 2)):
            n = rng.choice(names)
            style = rng.choice(["exact", "prefix", "alt", "class"])
            if style == "exact":
                pats.append("^%s$" % n)
            elif style == "prefix":
                pats.append("^%s" % n[:-1])
            elif style == "alt":
                pats.append("^(%s|%s)$" % (n, rng.choice(names)))
            else:
                pats.append("^%s[0-9]$" % n[:-1])
        kp = pats if mode in ("keep", "both") else []
        dp = [rng.choice(pats)] if mode == "drop" else (["^%s$" % rng.choice(names)] if mode == "both" else [])
        opts = []
        for x in kp:
            opts += [keepopt, x]
        for x in dp:
            opts += [dropopt, x]
        expected = set()
        for n in names:
            k = (not kp) or any(re.search(x, n) for x in kp)
            if any(re.search(x, n) for x in dp):
                k = False
            if k:
                expected.add(n)
        res = wl.tool_run(ctx, "abidiff", opts + [lib, empty], d)
        if run.abnormal(res):
            wl.abnormal_violation(r, res, "abidiff %s" % " ".join(opts))
            continue
        rep = report.Report(res.stdout)
        if rep.unparsed:
            continue
        got = set()
        for s in secs:
            for e in rep.entries(s):
                sy = (e.symbols() or [e.text])[0].split("@")[0]
                if sy in names:
                    got.add(sy)
        r.evaluations += 1
        nt_b = nt_b or (0 < len(expected) < len(names))
        if got != expected:
            r.violate("oracle:C27:%s:%s" % (label, mode), "abidiff %s B empty.so compares %s, the patterns keep %s" % (" ".join(opts), sorted(got)[:6], sorted(expected)[:6]))
        r.add("pattern_modes", label + ":" + mode)
    r.nontrivial = True
    r.digest = core.digest(progen.source_digest(progen.render(prog)), sorted(keep), sorted(renames.items()))
    r.sample = {"whitelist": sorted(keep)[:6], "renamed": renames, "symbols": len(allsyms)}
    return r


def feat(names):
    return "metachar-name" if any(any(m in n for m in META) for n in names) else "plain-name"
