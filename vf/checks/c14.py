"""C14 - outputs are deterministic across address-space layouts, allocator behaviour and working directories."""
import os
import subprocess
from .. import core, wl, run, mutate, pairs, progen

PROP = "C14"
LEVEL = "exploration"
FLAVORS = ["plain"]
ENGINE = "cli-oracle"
TECHNIQUE = "differential runtime oracle: byte comparison of outputs and statuses of abidw / abidiff / abipkgdiff across an environment matrix (ASLR on/off, MALLOC_PERTURB_, arenas, working directory, worker count)"
LEVEL_TEXT = ("every tool invocation is repeated under 6 environments - default ASLR, setarch -R (no ASLR), MALLOC_PERTURB_=0x55 / 0xAA, "
              "MALLOC_ARENA_MAX=1 with another working directory, and a second default-ASLR run - and its stdout and exit status must be "
              "byte-identical.  abipkgdiff is additionally run with different worker counts.  A probe program records that the "
              "environments really produce different code/heap/stack addresses.")
LEVEL_NOTE = "inputs are given by absolute path so that the working directory is the only thing that changes"
ASSUMPTIONS = [LEVEL_NOTE, "larger programs (more pointer-keyed containers populated) are favoured by the generator settings of this check"]

ENVS = [
    ("aslr", [], {}),
    ("no-aslr", ["setarch", "x86_64", "-R"], {}),
    ("perturb-55", [], {"MALLOC_PERTURB_": "85"}),
    ("perturb-aa-no-aslr", ["setarch", "x86_64", "-R"], {"MALLOC_PERTURB_": "170"}),
    ("arena1-othercwd", [], {"MALLOC_ARENA_MAX": "1"}),
    ("aslr-again", [], {"MALLOC_TOP_PAD_": "1048576"}),
]


def plan(tier):
    return {"n": 64 if tier == "quick" else 256, "floor": 16 if tier == "quick" else 64}


def rule(tier):
    return ("case = one large generated program (and a mutated copy): abidw (2 option sets), abidiff (3 option sets), abipkgdiff on two "
            "directories, each x %d environments; evaluations = byte comparisons against the first environment's output; non-trivial = "
            "abidw output >= 2 KB and >= 30 type definitions; distinct by source digest" % len(ENVS))


def run_matrix(ctx, r, d, tool, args, label, extra_envs=()):
    outs = []
    d2 = os.path.join(d, "othercwd")
    os.makedirs(d2, exist_ok=True)
    for name, prefix, env in list(ENVS) + list(extra_envs):
        cwd = d2 if "othercwd" in name else d
        res = run.run(prefix + [ctx.tool(tool)] + args, cwd=cwd, env=env, home=ctx.home(), timeout=300)
        if run.abnormal(res):
            wl.abnormal_violation(r, res, "%s under %s" % (label, name))
            return None
        outs.append((name, res.rc, res.out))
    base = outs[0]
    for name, rc, out in outs[1:]:
        r.evaluations += 1
        if rc != base[1] or out != base[2]:
            r.violate("oracle:C14:nondeterministic:%s" % tool,
                      "%s: output under '%s' differs from '%s' (status %s vs %s, %d vs %d bytes): %s"
                      % (label, name, base[0], rc, base[1], len(out), len(base[2]), first_diff(base[2], out)), args=args)
            break
    return base


def first_diff(a, b):
    la, lb = a.split(b"\n"), b.split(b"\n")
    for k in range(min(len(la), len(lb))):
        if la[k] != lb[k]:
            return "line %d: %r vs %r" % (k + 1, la[k][:120], lb[k][:120])
    return "length"


def case(ctx, i):
    rng = ctx.rng(i)
    r = core.CaseResult()
    d = ctx.casedir(i)
    gen_kw = {"ntypes": rng.randint(18, 40), "nfuncs": rng.randint(8, 20), "nvars": rng.randint(2, 8), "ntus": rng.choice([2, 3, 4])}
    pr, why = pairs.make_pair(ctx, rng, d, mutate.MIXED, nmut=rng.randint(2, 5), gen_kw=gen_kw, cfg=wl.pick_config(rng, kinds=("so",)))
    if pr is None:
        return r.skip(why)
    b1 = run_matrix(ctx, r, d, "abidw", [pr.a], "abidw")
    run_matrix(ctx, r, d, "abidw", ["--annotate", "--type-id-style", "hash", pr.b], "abidw --annotate --type-id-style hash")
    run_matrix(ctx, r, d, "abidiff", [pr.a, pr.b], "abidiff")
    run_matrix(ctx, r, d, "abidiff", ["--leaf-changes-only", "--impacted-interfaces", pr.a, pr.b], "abidiff --leaf-changes-only")
    run_matrix(ctx, r, d, "abidiff", ["--redundant", "--harmless", pr.b, pr.a], "abidiff --redundant --harmless (reversed)")
    # abipkgdiff: two directories holding 3 libraries each
    if i % 2 == 0:
        import shutil
        for side, lib in (("a", pr.a), ("b", pr.b)):
            pk = os.path.join(d, "pkg_" + side)
            os.makedirs(pk, exist_ok=True)
            for k in range(3):
                shutil.copy(lib if k != 1 else pr.a, os.path.join(pk, "lib%d.so" % k))
        run_matrix(ctx, r, d, "abipkgdiff", [os.path.join(d, "pkg_a"), os.path.join(d, "pkg_b")], "abipkgdiff",
                   extra_envs=[("workers-1", [], {"ABG_VERIF_NUM_THREADS": "1"}), ("workers-7", [], {"ABG_VERIF_NUM_THREADS": "7"})])
    ntypes = b1[2].count(b" id='type-id-") if b1 else 0
    r.nontrivial = bool(b1) and len(b1[2]) >= 2048 and ntypes >= 30
    r.digest = pr.digest
    r.sample = {"abidw_bytes": len(b1[2]) if b1 else 0, "type_definitions": ntypes, "environments": [e[0] for e in ENVS],
                "mutations": [e.kind for e in pr.expects]}
    return r


def prepare(ctx):
    """Show that the environments really move code / heap / stack."""
    d = os.path.join(ctx.rundir, "aslrprobe")
    os.makedirs(d, exist_ok=True)
    src = os.path.join(d, "p.c")
    open(src, "w").write('#include <stdio.h>\n#include <stdlib.h>\nint main(void){int s; void*h=malloc(100000); printf("%p %p %p\\n",(void*)main,h,(void*)&s); return 0;}\n')
    exe = os.path.join(d, "p")
    if subprocess.run(["gcc", "-pie", "-fPIE", "-o", exe, src]).returncode != 0:
        ctx.shared["aslr_triples"] = -1
        return
    seen = set()
    for name, prefix, env in ENVS:
        for _ in range(2):
            res = run.run(prefix + [exe], cwd=d, env=env)
            seen.add((name.startswith("no-aslr") or "no-aslr" in name, res.stdout.strip()))
    ctx.shared["aslr_triples"] = len({t for _n, t in seen})
    ctx.shared["noaslr_triples"] = len({t for n, t in seen if n})


def coverage_extra(ctx, results):
    return {"distinct_address_triples_seen_by_probe": ctx.shared.get("aslr_triples"),
            "distinct_address_triples_without_aslr": ctx.shared.get("noaslr_triples")}
