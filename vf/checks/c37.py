"""C37 - hash-table symbol lookup (abisym) agrees with the dynamic symbol table."""
import os
import re
import subprocess
from .. import core, wl, run, readelf

PROP = "C37"
LEVEL = "exploration"
FLAVORS = ["plain", "asan"]
ENGINE = "cli-oracle"
TECHNIQUE = "differential runtime oracle: abisym (ELF hash-table lookup; every 8th-12th query on the ASan+UBSan build) vs readelf's .dynsym over a linker x hash-style matrix, querying every defined symbol and absent names engineered to collide in the SysV / GNU buckets and bloom filter"
LEVEL_TEXT = ("shared objects with 50-800 symbols (a third of them versioned, default and non-default versions) are linked by ld.bfd and "
              "ld.lld with --hash-style=sysv, gnu and both; for every defined dynamic symbol abisym must find it and print the versions "
              "readelf shows; absent names - random ones and ones computed to fall into occupied SysV / GNU buckets and to pass the bloom "
              "filter - must not be found.")
LEVEL_NOTE = "names that are only undefined in .dynsym are not queried (the statement is about defined symbols); SysV and GNU hash functions are re-implemented in Python only to *choose* colliding absent names"
ASSUMPTIONS = [LEVEL_NOTE, "readelf is ground truth"]


def plan(tier):
    return {"n": 24 if tier == "quick" else 96, "floor": 12 if tier == "quick" else 48, "samples": 3}


def rule(tier):
    return ("case = one generated shared object (50-800 functions/variables, version script) x linker x hash style; queries = a sample of "
            "<= %d defined symbols (thorough: all) + 40 absent names (20 colliding); evaluations = abisym queries judged; non-trivial = "
            "library with >= 50 defined dynamic symbols; distinct by (symbol count, linker, hash style, seed)" % 120)


def sysv_hash(name):
    h = 0
    for c in name.encode():
        h = ((h << 4) + c) & 0xffffffff
        g = h & 0xf0000000
        if g:
            h ^= g >> 24
        h &= ~g & 0xffffffff
    return h


def gnu_hash(name):
    h = 5381
    for c in name.encode():
        h = (h * 33 + c) & 0xffffffff
    return h


def case(ctx, i):
    rng = ctx.rng(i)
    r = core.CaseResult()
    d = ctx.casedir(i)
    nsym = rng.choice([50, 80, 150, 300, 800]) if ctx.tier == "thorough" else rng.choice([50, 80, 150, 300])
    linker = ["bfd", "lld"][i % 2]
    style = ["sysv", "gnu", "both"][(i // 2) % 3]
    nonce = "h%04x" % rng.randrange(16 ** 4)
    names, src, vs1, vs2, nondef = [], [], [], [], []
    for k in range(nsym):
        n = "%s_%s%d" % (rng.choice(["fn", "api", "x", "lib_do"]), nonce, k)
        isvar = rng.random() < 0.2
        x = rng.random()
        if isvar:
            src.append("int %s = %d;" % (n, k))
        else:
            src.append("int %s(void) { return %d; }" % (n, k))
        if x < 0.2:
            vs1.append(n)
        elif x < 0.3:
            vs2.append(n)
        elif x < 0.36 and not isvar:
            # non-default version through .symver on an implementation symbol
            src[-1] = "int %s__v(void) { return %d; }\n__asm__(\".symver %s__v,%s@VERS_%s_1\");" % (n, k, n, n, nonce.upper())
            nondef.append(n)
        names.append(n)
    cfile = os.path.join(d, "lib.c")
    open(cfile, "w").write("\n".join(src) + "\n")
    vmap = os.path.join(d, "v.map")
    N = nonce.upper()
    open(vmap, "w").write("VERS_%s_1 { global: %s; local: *__v; };\nVERS_%s_2 { global: %s; } VERS_%s_1;\n"
                          % (N, "; ".join(vs1 + ["verif_dummy1"]), N, "; ".join(vs2 + ["verif_dummy2"]), N))
    lib = os.path.join(d, "lib.so")
    cmd = ["gcc", "-shared", "-fPIC", "-w", "-o", lib, cfile, "-fuse-ld=" + linker, "-Wl,--hash-style=" + style,
           "-Wl,--version-script=" + vmap]
    p = subprocess.run(cmd, cwd=d, stdout=subprocess.PIPE, stderr=subprocess.STDOUT)
    if p.returncode != 0:
        return r.skip("link-error:" + p.stdout.decode(errors="replace")[-200:])
    syms = [s for s in readelf.symbols(lib, "dynsym") if s.ndx != "UND" and s.name and s.ndx != "ABS"]
    byname = {}
    for s in syms:
        byname.setdefault(s.name, []).append(s)
    what = "%d symbols, ld.%s --hash-style=%s" % (len(byname), linker, style)
    present = sorted(byname)
    if ctx.tier == "quick" and len(present) > 120:
        present = rng.sample(present, 120)
    # absent names: random + colliding
    absent = ["absent_%s_%d" % (nonce, k) for k in range(20)]
    nb = max(1, len(byname))
    targets_s = {sysv_hash(n) % nb for n in list(byname)[:50]}
    targets_g = {gnu_hash(n) % nb for n in list(byname)[:50]}
    k = 0
    while len(absent) < 40 and k < 200000:
        cand = "zz_%s_%d" % (nonce, k)
        k += 1
        if cand in byname:
            continue
        if sysv_hash(cand) % nb in targets_s or gnu_hash(cand) % nb in targets_g:
            absent.append(cand)
    for qn, name in enumerate(present):
        res, hang = wl.run_must_terminate(ctx, "abisym", [lib, name], d, flavor="asan" if qn % 12 == 0 else "plain")
        r.evaluations += 1
        if hang or run.abnormal(res):
            r.violate(res.key, "abisym on a valid library (%s) looking for '%s': %s" % (what, name, res.key), run=res.brief())
            break
        out = res.stdout
        if not out.startswith("found ") or res.rc != 0:
            r.violate("oracle:C37:defined-symbol-not-found:%s:%s" % (linker, style),
                      "abisym does not find defined dynamic symbol '%s' (%s): %r" % (name, what, out[:200]))
            continue
        want = sorted({s.version for s in byname[name] if s.version})
        got = sorted(set(re.findall(r"(VERS_\w+)", out)))
        if want != got:
            r.violate("oracle:C37:versions-differ:%s:%s" % (linker, style),
                      "abisym reports versions %s for '%s' but readelf shows %s (%s): %r" % (got, name, want, what, out[:200]))
    for qn, name in enumerate(absent):
        res, hang = wl.run_must_terminate(ctx, "abisym", [lib, name], d, flavor="asan" if qn % 8 == 0 else "plain")
        r.evaluations += 1
        if hang or run.abnormal(res):
            r.violate(res.key, "abisym on a valid library (%s) looking for absent '%s': %s" % (what, name, res.key), run=res.brief())
            break
        if res.stdout.startswith("found "):
            r.violate("oracle:C37:absent-symbol-found:%s:%s" % (linker, style),
                      "abisym finds '%s' which is not in .dynsym (%s): %r" % (name, what, res.stdout[:200]))
    r.nontrivial = len(byname) >= 50
    r.digest = core.digest(nsym, linker, style, ctx.seed, i)
    r.add("matrix", "ld.%s/%s" % (linker, style))
    r.sample = {"library": what, "queries_present": len(present), "queries_absent": len(absent),
                "versioned": len([n for n in byname if any(s.version for s in byname[n])])}
    return r
