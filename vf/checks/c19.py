"""C19 - symbol-only comparisons report exactly the symbol set difference."""
import os
from .. import core, wl, run, mutate, pairs, report, readelf, cc, progen
from . import c18

PROP = "C19"
LEVEL = "exploration"
FLAVORS = ["plain"]
ENGINE = "cli-oracle"
TECHNIQUE = "differential runtime oracle: abidiff on binaries without debug info vs the set difference of readelf's public defined symbols (by name and version)"
LEVEL_TEXT = ("pairs of binaries without debug info (compiled without -g, or strip --strip-debug) that differ by random symbol additions, "
              "removals, version changes and unversioned -> default-version re-exports are compared; the reported removed/added function "
              "and variable symbols must be exactly P1 \\\\ P2 and P2 \\\\ P1 (public defined symbols per readelf, by name and version), "
              "modulo the stated re-export rule; any removal must set bit 8 and equal sets must give status 0.")
LEVEL_NOTE = "the re-export rule is applied exactly as stated: a symbol unversioned in the old binary and default-versioned in the new one is neither removed nor added"
ASSUMPTIONS = [LEVEL_NOTE, "readelf is ground truth"]


def plan(tier):
    return {"n": 300 if tier == "quick" else 1200, "floor": 80 if tier == "quick" else 300}


def rule(tier):
    return ("case = one decorated program and a copy with 0-5 symbol-level mutations (remove/add function/variable, add default version, "
            "change version node, add/remove alias), built without debug info as DSO (or relocatable/PIE without versions); evaluations = "
            "set comparisons + status checks; non-trivial = symbol sets differ; distinct by digest of both sources + configuration")

CAT = {}
CAT.update({k: mutate.BREAKING[k] for k in ("remove-function", "remove-variable")})
CAT.update(mutate.ADDITIVE)
CAT.update(mutate.SYMBOL)


def idset(syms):
    return {s.ident() for s in syms}


def case(ctx, i):
    rng = ctx.rng(i)
    r = core.CaseResult()
    d = ctx.casedir(i)
    kind = rng.choice(["so", "so", "so", "exec", "rel"])
    cfg = {"family": rng.choice(["gcc", "clang"]), "dwarf": 4, "opt": rng.choice(["-O0", "-O1"]), "kind": kind}
    p = progen.generate(rng, wl.gen_opts(rng, ctx.tier))
    c18.decorate(p, rng, kind)
    q = p
    kinds = sorted(CAT) if kind == "so" else ["remove-function", "remove-variable", "add-function", "add-variable"]
    applied = []
    for k in range(rng.choice([0, 1, 1, 2, 3, 5])):
        res = mutate.apply_random(CAT, q, rng, kinds)
        if res:
            q, e = res
            applied.append(e.kind)
    strip = rng.random() < 0.5
    try:
        a = cc.build(p, os.path.join(d, "a"), debug=strip, strip_debug=strip, **cfg)
        b = cc.build(q, os.path.join(d, "b"), debug=strip, strip_debug=strip, **cfg)
    except cc.CompileError as ex:
        return r.skip("compile-error:" + str(ex)[-300:])
    what = "%s %s %s" % ("+".join(applied) or "identical", wl.describe_cfg(cfg), "stripped" if strip else "-g0")
    f1, v1 = readelf.public_symbols(a)
    f2, v2 = readelf.public_symbols(b)
    res = wl.tool_run(ctx, "abidiff", [a, b], d)
    if run.abnormal(res):
        wl.abnormal_violation(r, res, "abidiff on binaries without debug info [%s]" % what)
        return r
    rep = report.Report(res.stdout)
    if rep.unparsed:
        return r.inconclusive("unparsed-report-line:" + rep.unparsed[0][:80])
    any_removed = False
    differ = False
    for label, s1, s2, rem, add, drem, dadd in (("function", f1, f2, "fsym-removed", "fsym-added", "fn-removed", "fn-added"),
                                                ("variable", v1, v2, "vsym-removed", "vsym-added", "var-removed", "var-added")):
        i1, i2 = idset(s1), idset(s2)
        exp_removed, exp_added = i1 - i2, i2 - i1
        # stated re-export rule: unversioned in old, default-versioned in new => neither removed nor added
        for x in sorted(exp_added):
            if "@@" in x and x.split("@@")[0] in exp_removed:
                exp_added.discard(x)
                exp_removed.discard(x.split("@@")[0])
        got_removed = {(e.symbols() or [e.text])[0] for e in rep.entries(rem) + rep.entries(drem)}
        got_added = {(e.symbols() or [e.text])[0] for e in rep.entries(add) + rep.entries(dadd)}
        # an entry names one symbol and lists the other members of its alias group after "aliases": a removed /
        # added symbol that is mentioned that way has been reported too
        al_removed = {x for e in rep.entries(rem) + rep.entries(drem) for x in e.symbols()[1:]}
        al_added = {x for e in rep.entries(add) + rep.entries(dadd) for x in e.symbols()[1:]}
        got_removed |= (exp_removed & al_removed)
        got_added |= (exp_added & al_added)
        differ = differ or bool(exp_removed or exp_added)
        any_removed = any_removed or bool(exp_removed)
        r.evaluations += 2
        if got_removed != exp_removed:
            r.violate("oracle:C19:removed-set:%s:%s" % (label, feat(exp_removed ^ got_removed, s1)),
                      "%s symbols: removed per readelf %s, reported %s [%s]" % (label, sorted(exp_removed)[:5], sorted(got_removed)[:5], what), run=res.brief())
        if got_added != exp_added:
            r.violate("oracle:C19:added-set:%s:%s" % (label, feat(exp_added ^ got_added, s2)),
                      "%s symbols: added per readelf %s, reported %s [%s]" % (label, sorted(exp_added)[:5], sorted(got_added)[:5], what), run=res.brief())
    r.evaluations += 1
    if any_removed and not (res.rc is not None and res.rc & 8):
        r.violate("oracle:C19:removal-without-bit8", "a symbol was removed but abidiff exits %s [%s]" % (res.rc, what), run=res.brief())
    if not differ and res.rc != 0:
        r.violate("oracle:C19:equal-sets-nonzero", "symbol sets are equal but abidiff exits %s [%s]" % (res.rc, what), run=res.brief())
    r.nontrivial = differ
    r.digest = core.digest(progen.source_digest(progen.render(p)), progen.source_digest(progen.render(q)), cfg, strip)
    for k in applied:
        r.add("mutation_kinds", k)
    r.add("configs", wl.describe_cfg(cfg))
    r.sample = {"mutations": applied, "config": what, "status": res.rc, "functions": len(f1), "variables": len(v1)}
    return r


def feat(symdiff, syms=()):
    if any("@@" in x for x in symdiff):
        return "default-versioned"
    if any("@" in x for x in symdiff):
        return "versioned"
    # does a symbol of the difference share its address with another public symbol (alias group)?
    addr = {}
    for s in syms:
        addr.setdefault((s.ndx, s.value), []).append(s.ident())
    for s in syms:
        if s.ident() in symdiff and len(addr[(s.ndx, s.value)]) > 1:
            return "member-of-alias-group"
    return "plain"
