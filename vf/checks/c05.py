"""C05 - ABI-breaking source changes are always reported."""
import os
from .. import core, progen, cc, wl, run, mutate, pairs, report

PROP = "C05"
LEVEL = "exploration"
FLAVORS = ["plain"]
ENGINE = "cli-oracle"
TECHNIQUE = "model-based runtime oracle: catalog of ABI-breaking mutations with effect known from the generator's model; abidiff must set bit 4 (bit 8 on removals) and name an affected interface"
LEVEL_TEXT = ("a generated program P and M(P), M drawn from 11 breaking mutation kinds applied to a type reachable from the exported "
              "interface at whatever depth the random program provides (direct parameter, pointer, typedef, array, nested / anonymous "
              "member), are built with the same compiler and flags and compared by abidiff with default options.  The status must have "
              "the ABI-change bit, a removal must also have the incompatible bit, and an interface of the model's affected set must be "
              "named by a [C]/[D]/[A] entry (all of them with --redundant).  Held = every judged pair was reported.")
LEVEL_NOTE = ("only catalog mutations; guards: the mutation must change .debug_info, 'reorder members' must change an offset according "
              "to a compiler probe; C++-only kinds (bases, virtual functions) are exercised when the C++ generator is enabled")
ASSUMPTIONS = [LEVEL_NOTE, "HOME is empty: no user suppressions; default.abignore is not installed in the verification build"]


def plan(tier):
    return {"n": 300 if tier == "quick" else 1200, "floor": 80 if tier == "quick" else 300}


def rule(tier):
    return ("case = (P, M(P)) for one random mutation kind of %s x one build configuration; evaluations = abidiff verdicts judged "
            "(default, and --redundant on half of the cases); non-trivial = guard established (debug info differs, probe confirms a layout "
            "change where required); distinct by digest of both sources + configuration" % sorted(mutate.BREAKING))


def _all_records(prog):
    """named records and the anonymous ones nested in them"""
    out, todo = [], [t for t in prog.types if isinstance(t, progen.Record)]
    while todo:
        t = todo.pop()
        out.append(t)
        for f in t.fields:
            x = f.type
            while isinstance(x, (progen.Pointer, progen.Qualified, progen.Array)):
                x = x.elem if isinstance(x, progen.Array) else x.to
            if isinstance(x, progen.Record) and x.name is None:
                todo.append(x)
    return out


def names_any(rep, names):
    for _kind, e in rep.interfaces():
        for n in names:
            if e.mentions(n) or n in [s.split("@")[0] for s in e.symbols()]:
                return True
    return False


def named_set(rep, names):
    out = set()
    for _kind, e in rep.interfaces():
        for n in names:
            if e.mentions(n) or n in [s.split("@")[0] for s in e.symbols()]:
                out.add(n)
    return out


def case(ctx, i):
    rng = ctx.rng(i)
    r = core.CaseResult()
    d = ctx.casedir(i)
    kinds = sorted(mutate.BREAKING)
    kind = kinds[i % len(kinds)] if rng.random() < 0.7 else rng.choice(kinds)
    gen_kw, lang = None, "c"
    x = rng.random()
    if x < 0.3:
        # few types knotted into several reference cycles, reached through one or two interfaces: the shapes on which
        # canonical-type propagation has to be cancelled and confirmed
        gen_kw = {"ntypes": rng.randint(3, 7), "nfuncs": rng.randint(1, 3), "nvars": rng.randint(0, 1), "back_edges": (2, 6)}
    elif x < 0.5:
        lang = "cxx"
    pr, why = pairs.make_pair(ctx, rng, d, mutate.BREAKING, kinds=[kind], gen_kw=gen_kw, lang=lang)
    if pr is None:
        return r.skip(why)
    e = pr.expects[0]
    if pr.p.lang == "cxx" and e.type_name and not e.removed:
        # C++: the exported member functions of the classes that reach the mutated type are affected interfaces too (the
        # report may attribute the change to one of them and list the free functions as redundant)
        tt = pr.p.find_type(e.type_name.split(":", 1)[1])
        if tt is not None:
            for rec in pr.p.types:
                if isinstance(rec, progen.Record) and rec.methods and (rec is tt or any(x is tt for x in pr.p.reach(rec, through_methods=False))):
                    e.method_names = getattr(e, "method_names", []) + [m.name for m in rec.methods]
    what = "%s (%s) %s" % (e.kind, e.detail or e.entity or "", wl.describe_cfg(pr.cfg))
    if not pairs.debug_info_differs(pr):
        return r.skip("trivial:debug-info-identical")
    if e.needs_layout_change:
        try:
            if not pairs.layout_changed(pr, d, e.type_name):
                return r.skip("guard:no-layout-change")
        except cc.CompileError as ex:
            return r.skip("probe-failed")
    res = wl.tool_run(ctx, "abidiff", [pr.a, pr.b], d)
    r.evaluations += 1
    r.add("mutation_kinds", e.kind)
    if run.abnormal(res):
        wl.abnormal_violation(r, res, "abidiff P M(P) [%s]" % what)
        return r
    rep = report.Report(res.stdout)
    if rep.unparsed:
        return r.inconclusive("unparsed-report-line:" + rep.unparsed[0][:80])
    rc = res.rc
    if rc is None or not (rc & 4):
        r.violate("oracle:C05:not-reported:" + e.kind, "breaking change not reported: exit %s for %s; affected %s" % (rc, what, e.affected[:4]),
                  run=res.brief(), expect=e.to_json())
    else:
        if e.removed and not (rc & 8):
            r.violate("oracle:C05:removal-without-incompatible-bit:" + e.kind, "removal reported with exit %s (bit 8 missing) for %s" % (rc, what), run=res.brief())
        if not names_any(rep, e.affected + getattr(e, "method_names", [])):
            r.violate("oracle:C05:affected-interface-not-named:" + e.kind,
                      "exit %s but none of the affected interfaces %s is named in the report for %s" % (rc, e.affected[:5], what), run=res.brief(), expect=e.to_json())
    if rng.random() < 0.5 and not e.removed:
        res2 = wl.tool_run(ctx, "abidiff", ["--redundant", pr.a, pr.b], d)
        r.evaluations += 1
        if run.abnormal(res2):
            wl.abnormal_violation(r, res2, "abidiff --redundant [%s]" % what)
        else:
            rep2 = report.Report(res2.stdout)
            if not rep2.unparsed:
                missing = set(e.affected) - named_set(rep2, e.affected)
                if missing:
                    r.violate("oracle:C05:redundant-misses-interface:" + e.kind,
                              "--redundant does not name affected interfaces %s for %s" % (sorted(missing)[:4], what), run=res2.brief(), expect=e.to_json())
    if r.violations and e.type_name and ":" in e.type_name:
        # the mutated type is also a (by-value) member of a union: the union's "size did not change" harmless filter
        # swallows the diff on that path and the other paths are then dropped as redundant - a family of its own
        tt = pr.p.find_type(e.type_name.split(":", 1)[1])
        through_union = tt is not None and any(
            isinstance(u, progen.Record) and u.kind == "union" and u is not tt and any(x is tt for x in pr.p.reach(u, through_methods=False))
            for u in _all_records(pr.p))
        if through_union:
            for v in r.violations:
                if v.key.startswith("oracle:C05:"):
                    v.key = ":".join(v.key.split(":")[:3]) + ":mutated-type-also-reachable-through-a-union"
    if r.violations and pr.p.lang == "cxx":
        # how did the reader see the classes?  A C++ class recorded as declaration-only *with member functions attached*
        # although its definition is in the debug info is a family of its own (changes below it are invisible): say so
        xml = os.path.join(d, "a.abi")
        w = wl.abidw(ctx, pr.a, xml)
        if not run.abnormal(w) and w.rc == 0:
            import re
            doc = open(xml, "rb").read()
            if re.search(rb"<class-decl [^>]*is-declaration-only='yes'[^>]*[^/]>\n", doc):
                for v in r.violations:
                    if v.key.startswith("oracle:C05:"):
                        v.key = ":".join(v.key.split(":")[:3]) + ":a-defined-class-is-recorded-declaration-only"
    r.nontrivial = True
    r.digest = pr.digest
    r.add("configs", wl.describe_cfg(pr.cfg))
    r.sample = {"mutation": e.to_json(), "config": wl.describe_cfg(pr.cfg), "status": rc, "summary": res.stdout.split("\n")[:2]}
    return r
