"""C18 - recorded symbol tables equal the ELF symbol table (oracle: readelf)."""
import os
from .. import core, progen, cc, wl, run, abixml, readelf
from . import c01

PROP = "C18"
LEVEL = "exploration"
FLAVORS = ["plain"]
ENGINE = "cli-oracle"
TECHNIQUE = "differential runtime oracle: <elf-function-symbols>/<elf-variable-symbols> of abidw output (expat) vs binutils readelf on the relevant symbol table"
LEVEL_TEXT = ("generated programs decorated with aliases, weak definitions, protected/hidden visibility, TLS and common variables, IFUNCs "
              "and version scripts (default and non-default versions) are linked with ld.bfd or ld.lld as DSO / PIE / relocatable object; "
              "the symbol tables of the ABIXML must be exactly the defined GLOBAL/WEAK/UNIQUE, DEFAULT/PROTECTED function and data symbols "
              "readelf shows in .dynsym (.symtab for relocatable objects), with equal version, default-version flag, binding, type, size, "
              "visibility, and with same-address symbols listed as aliases of each other.")
LEVEL_NOTE = "'relevant table' = .dynsym for ET_DYN, .symtab for ET_REL; absolute (SHN_ABS) symbols such as version-definition markers are not data symbols"
ASSUMPTIONS = [LEVEL_NOTE, "readelf -W output is ground truth"]

TYPEMAP = {"FUNC": "func-type", "IFUNC": "gnu-ifunc-type", "OBJECT": "object-type", "TLS": "tls-type", "COMMON": "common-type", "NOTYPE": "no-type"}
BINDMAP = {"GLOBAL": "global-binding", "WEAK": "weak-binding", "UNIQUE": "gnu-unique-binding"}
VISMAP = {"DEFAULT": "default-visibility", "PROTECTED": "protected-visibility"}


def plan(tier):
    return {"n": 200 if tier == "quick" else 800, "floor": 40 if tier == "quick" else 160}


def rule(tier):
    return ("case = one decorated program x build configuration x linker; evaluations = symbols compared; non-trivial = the binary has "
            "at least one alias pair, versioned, weak, TLS, common, IFUNC or protected symbol; distinct by source digest + configuration")


def decorate(prog, rng, kind):
    """-> set of feature names used."""
    feats = set()
    fns = prog.exported_functions()
    vs = prog.exported_variables()
    if fns and rng.random() < 0.5:
        for f in rng.sample(fns, min(len(fns), rng.randint(1, 2))):
            f.aliases.append(("%s_al%d" % (f.name, rng.randint(1, 9)), rng.random() < 0.4))
            feats.add("alias")
    if vs and rng.random() < 0.4:
        v = rng.choice(vs)
        v.aliases.append(("%s_al" % v.name, rng.random() < 0.3))
        feats.add("var-alias")
    if fns and rng.random() < 0.3:
        rng.choice(fns).weak = True
        feats.add("weak")
    if vs and rng.random() < 0.25:
        v = rng.choice(vs)
        if not v.aliases:
            v.weak = True
            feats.add("weak-var")
    for x in fns + vs:
        if rng.random() < 0.12:
            x.visibility = rng.choice(["protected", "hidden"])
            feats.add(x.visibility)
    for v in vs:
        if not v.aliases and not v.weak and rng.random() < 0.15 and progen._is_scalar(v.type):
            v.tls = True
            feats.add("tls")
    if prog.lang == "c":
        for v in vs:
            if not v.tls and not v.aliases and not v.weak and not v.visibility and rng.random() < 0.12 \
                    and not isinstance(v.type, progen.Qualified):
                v.common = True
                feats.add("common")
    if kind == "so" and fns and rng.random() < 0.45:
        n1 = "VERS_%s_1" % prog.nonce.upper()
        n2 = "VERS_%s_2" % prog.nonce.upper()
        cand = [f for f in fns if not f.visibility and not f.weak]
        for f in rng.sample(cand, min(len(cand), rng.randint(1, 4))):
            dflt = rng.random() < 0.7
            if not dflt and f.aliases:
                continue
            f.version = (rng.choice([n1, n2]), dflt)
            feats.add("version" if dflt else "nondefault-version")
    return feats


def case(ctx, i):
    rng = ctx.rng(i)
    r = core.CaseResult()
    d = ctx.casedir(i)
    prog = progen.generate(rng, wl.gen_opts(rng, ctx.tier, lang="c"))
    cfg = wl.pick_config(rng, kinds=("so", "so", "so", "exec", "rel"))
    feats = decorate(prog, rng, cfg["kind"])
    linker = rng.choice([None, None, "bfd", "lld"]) if cfg["kind"] != "rel" else None
    try:
        binp = cc.build(prog, d, linker=linker, **cfg)
    except cc.CompileError as ex:
        return r.skip("compile-error:" + str(ex)[-400:])
    xml = os.path.join(d, "out.abi")
    w = wl.abidw(ctx, binp, xml)
    if run.abnormal(w):
        wl.abnormal_violation(r, w, "abidw")
        return r
    if w.rc != 0:
        return r.skip("abidw-failed")
    doc = abixml.Doc(open(xml, "rb").read())
    what = "%s, linker %s" % (wl.describe_cfg(cfg), linker or "default")
    table = readelf.relevant_table(binp)
    efns, evars = readelf.public_symbols(binp, table)
    for kindname, esyms, dsyms in (("function", efns, doc.fn_syms), ("variable", evars, doc.var_syms)):
        emap = {s.ident(): s for s in esyms}
        dmap = {}
        for n in dsyms:
            nm = n.attrs.get("name", "")
            ver = n.attrs.get("version")
            ident = nm if not ver else "%s@%s%s" % (nm, "@" if n.attrs.get("is-default-version") == "yes" else "", ver)
            dmap[ident] = n
        for ident in sorted(set(emap) - set(dmap)):
            s = emap[ident]
            r.violate("oracle:C18:missing:%s:%s" % (kindname, sym_feature(s)),
                      "%s symbol %s (%s %s %s, table .%s) is not in the ABIXML symbol table (%s)" % (kindname, ident, s.type, s.bind, s.vis, table, what))
        for ident in sorted(set(dmap) - set(emap)):
            r.violate("oracle:C18:extra:%s" % kindname, "%s symbol %s is in the ABIXML but not a public defined symbol of .%s (%s)" % (kindname, ident, table, what))
        # attributes
        for ident in sorted(set(emap) & set(dmap)):
            s, n = emap[ident], dmap[ident]
            r.evaluations += 1
            a = n.attrs
            exp_type = TYPEMAP.get(s.type, s.type)
            if a.get("type") != exp_type:
                r.violate("oracle:C18:attr:type:%s" % s.type, "%s: type='%s' but readelf says %s (ndx %s) (%s)" % (ident, a.get("type"), s.type, s.ndx, what))
            if a.get("binding") != BINDMAP.get(s.bind):
                r.violate("oracle:C18:attr:binding", "%s: binding='%s' but readelf says %s (%s)" % (ident, a.get("binding"), s.bind, what))
            if a.get("visibility") != VISMAP.get(s.vis):
                r.violate("oracle:C18:attr:visibility", "%s: visibility='%s' but readelf says %s (%s)" % (ident, a.get("visibility"), s.vis, what))
            if kindname == "variable":
                dsz = int(a.get("size", "0"))
                if dsz != s.size:
                    r.violate("oracle:C18:attr:size", "%s: size='%s' but readelf says %d (%s)" % (ident, a.get("size"), s.size, what))
            if a.get("is-defined") != "yes":
                r.violate("oracle:C18:attr:is-defined", "%s: is-defined='%s' (%s)" % (ident, a.get("is-defined"), what))
        # aliases: symbols sharing (section, value) must list each other
        groups = {}
        for s in esyms:
            if s.ndx in ("COM",):
                continue
            groups.setdefault((s.ndx, s.value, s.type in ("TLS",)), []).append(s)
        for g in groups.values():
            if len(g) < 2:
                continue
            idents = {s.ident() for s in g}
            # ABIXML encoding: the main symbol of an alias group carries alias='a,b,...'; the relation is
            # recorded when some member of the group lists all the others.
            covered = False
            listed_all = {}
            for s in g:
                n = dmap.get(s.ident())
                if n is None:
                    continue
                listed = set(x for x in n.attrs.get("alias", "").split(",") if x)
                listed_all[s.ident()] = sorted(listed)
                if idents - {s.ident()} <= listed:
                    covered = True
            r.evaluations += 1
            if not covered and all(x in dmap for x in idents):
                r.violate("oracle:C18:alias-not-listed:%s" % kindname,
                          "symbols %s share one address but no member lists all the others as aliases: %s (%s)" % (sorted(idents), listed_all, what))
        for n in dsyms:
            for al in [x for x in n.attrs.get("alias", "").split(",") if x]:
                # a listed alias must share the address
                me = emap.get(next((k for k in emap if k == (n.attrs.get("name") if not n.attrs.get("version") else None)), None) or "", None)
                tgt = emap.get(al) or next((emap[k] for k in emap if k.split("@")[0] == al.split("@")[0]), None)
                nm = n.attrs.get("name", "")
                ver = n.attrs.get("version")
                ident = nm if not ver else "%s@%s%s" % (nm, "@" if n.attrs.get("is-default-version") == "yes" else "", ver)
                me = emap.get(ident)
                if me is not None and tgt is not None and (me.value != tgt.value or me.ndx != tgt.ndx):
                    r.violate("oracle:C18:alias-wrong:%s" % kindname, "%s lists alias %s but their addresses differ (%s)" % (ident, al, what))
    r.nontrivial = bool(feats)
    r.digest = core.digest(progen.source_digest(progen.render(prog)), cfg, linker)
    for f in feats:
        r.add("features", f)
    r.add("configs", what)
    r.add("table", table)
    r.sample = {"config": what, "table": table, "features": sorted(feats), "function_symbols": len(efns), "variable_symbols": len(evars)}
    return r


def sym_feature(s):
    f = [s.type, s.bind]
    if s.version:
        f.append("versioned")
    if s.ndx == "COM":
        f.append("common")
    return "-".join(f)
