"""C39 - INI write/read round trips (harness/ini_roundtrip.cc)."""
from . import _harnessjobs as hj

PROP = "C39"
LEVEL = "exploration"
FLAVORS = ["asan"]
ENGINE = "api-harness"
TECHNIQUE = "runtime oracle: structural comparison through the public getters after write/read round trips, generated configs and mutated texts, under ASan/UBSan"
LEVEL_TEXT = ("(a) configurations built through the public constructors (simple/empty/list/tuple properties, nested tuples) are written, "
              "read back and compared structurally; (b) random and mutated INI texts are read, written and read again and the two reads "
              "compared; held = no difference, crash or hang on the inputs explored.")
LEVEL_NOTE = ("(a) draws names from non-delimiter characters and values from characters that are neither delimiters nor INI syntax "
              "characters (= [ ] backslash), no leading/trailing blanks, lists of >=2 items, sections with >=1 property; "
              "structural equality is this check's own walker over the public getters")
ASSUMPTIONS = [LEVEL_NOTE]


def _jobs(tier):
    if tier == "quick":
        return [("gen", s, 2500) for s in range(8)] + [("text", s, 5000) for s in range(8)]
    return [("gen", s, 30000) for s in range(16)] + [("text", s, 60000) for s in range(16)]


def plan(tier):
    return {"n": len(_jobs(tier)), "floor": 1000, "samples": 3}


def rule(tier):
    return ("each job = ini_roundtrip process with its own PRNG stream; gen jobs build configs via the API, text jobs generate token "
            "soups, well-formed files and byte-mutated files; evaluations = round trips; non-trivial = (a) every config (>=1 section, "
            ">=1 property), (b) texts whose first read yields >=1 section")


def case(ctx, i):
    mode, s, n = _jobs(ctx.tier)[i]
    r, _ = hj.run_job(ctx, i, PROP, "ini_roundtrip", [mode, ctx.seed * 100 + s, n], "%s seed=%d n=%d" % (mode, ctx.seed * 100 + s, n))
    return r


count_nontrivial = hj.count_nontrivial
