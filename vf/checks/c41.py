"""C41 - name / string helpers vs reference implementations (harness/strutils_check.cc)."""
from . import _harnessjobs as hj

PROP = "C41"
LEVEL = "exploration"
FLAVORS = ["asan"]
ENGINE = "api-harness"
TECHNIQUE = "runtime oracle: reference string functions written from the statement, random token strings, under ASan/UBSan"
LEVEL_TEXT = ("decl_names_equal, split_string, string_begins_with/ends_with/suffix and trim_leading_string are called on random "
              "strings over a token alphabet ('::', delimiters, blanks, anonymous-name prefixes) and compared with references; "
              "held = no disagreement on the inputs explored.")
LEVEL_NOTE = ("string_suffix(s, s) is recorded but not judged (doc comment ambiguous); decl_names_equal is only judged for "
              "symmetry, for equality with == on names without anonymous prefixes, and for the documented renumbering equivalence")
ASSUMPTIONS = [LEVEL_NOTE, "strings are concatenations of 0..10 tokens from a fixed 26-token alphabet"]

GROUPS = ["names", "split", "affix", "trimlead"]


def _jobs(tier):
    per = 50000 if tier == "quick" else 400000
    reps = 1 if tier == "quick" else 1
    return [(g, s, per) for g in GROUPS for s in range(4)]


def plan(tier):
    return {"n": len(_jobs(tier)), "floor": 1000, "samples": 4}


def rule(tier):
    return ("each job = one strutils_check process for one helper group and PRNG stream (quick 4x50k, thorough 4x400k inputs per "
            "group); evaluations = oracle comparisons; non-trivial = names: the two names differ and have no anonymous part or are "
            "renumbered anonymous names; split: >=2 fields; affix: non-empty proper-length affix; trimlead: >=1 leading repetition")


def case(ctx, i):
    g, s, n = _jobs(ctx.tier)[i]
    r, _ = hj.run_job(ctx, i, PROP, "strutils_check", [g, ctx.seed * 100 + s, n, 6], "%s seed=%d n=%d" % (g, ctx.seed * 100 + s, n))
    return r


count_nontrivial = hj.count_nontrivial
