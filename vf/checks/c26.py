"""C26 - public-header filtering hides only private types."""
import os
import shutil
from .. import core, wl, run, mutate, report, cc, progen

PROP = "C26"
LEVEL = "exploration"
FLAVORS = ["plain"]
ENGINE = "cli-oracle"
TECHNIQUE = "model-based runtime oracle: types split over a public header, a private header and .c files; mutations on public types must stay reported under --headers-dir/--header-file, mutations on private types must be filtered (with an unfiltered control run)"
LEVEL_TEXT = ("generated programs define part of their structs in private.h (only declared in public.h; used through pointers only).  A "
              "struct mutation is applied either to a public struct reachable from the interface without crossing a private struct, or "
              "to a private struct.  With --headers-dir1/2 (or --header-file1/2) pointing at directories holding only public.h: a public "
              "change must keep bit 4 and name a using interface; a private change must give exit 0 with no using interface listed, while "
              "the control run without the options reports it.  --drop-private-types must give the same status and [C] interface set on "
              "public changes.  In a quarter of the cases a private struct is changed together with the public one: the public change "
              "must still be reported.")
LEVEL_NOTE = "header base names are distinct (public.h / private.h); the report need not be empty when a change is filtered (a 'filtered out' summary is printed)"
ASSUMPTIONS = [LEVEL_NOTE]

KINDS = ["append-member", "insert-member", "remove-member", "change-member-type"]


def plan(tier):
    return {"n": 250 if tier == "quick" else 1000, "floor": 60 if tier == "quick" else 266}


def rule(tier):
    return ("case = one program with public/private types x one struct mutation (alternating public / private target) x header option "
            "style (--headers-dir or --header-file); evaluations = verdicts judged; non-trivial = control run without header options "
            "reports the change; distinct by digest of both sources")


def reach_public(prog, root):
    """named types reachable from `root` without crossing a private (or opaque) record"""
    seen, out, todo = set(), [], [root]
    while todo:
        t = todo.pop()
        if id(t) in seen:
            continue
        seen.add(id(t))
        if t.named and getattr(t, "name", None):
            out.append(t)
        if isinstance(t, progen.Record) and (t.opaque or getattr(t, "where", "public") != "public"):
            continue
        todo.extend(t.children())
    return out


def pr_rec(prog, e):
    return prog.find_type(e.type_name.split(":", 1)[1]) if e.type_name and ":" in e.type_name else None


def in_cycle_with_private(prog, rec):
    """Does `rec` reach a private struct that reaches `rec` back?"""
    if rec is None:
        return False
    for t in prog.reach(rec, through_methods=False):
        if t is not rec and isinstance(t, progen.Record) and getattr(t, "where", "public") == "private" and not t.opaque:
            if any(x is rec for x in prog.reach(t, through_methods=False)):
                return True
    return False


def near_privates(rec):
    """names of the private structs that `rec` itself has (pointer) members of"""
    near = set()
    for f in (rec.fields if rec is not None else []):
        t = f.type
        while isinstance(t, (progen.Pointer, progen.Typedef, progen.Qualified, progen.Array)):
            t = t.elem if isinstance(t, progen.Array) else t.to
        if isinstance(t, progen.Record) and t.name and getattr(t, "where", "public") == "private":
            near.add(t.name)
    return near


def case(ctx, i):
    rng = ctx.rng(i)
    r = core.CaseResult()
    d = ctx.casedir(i)
    want_private = (i % 2 == 1)
    want_both = (i % 4 == 2)
    p = q = e = None
    for attempt in range(12):
        p = progen.generate(rng, wl.gen_opts(rng, ctx.tier, private_types=True, ntypes=rng.randint(6, 16)))
        privs = [t for t in p.types if isinstance(t, progen.Record) and getattr(t, "where", "public") == "private" and p.users_of(t)]
        if want_private and not privs:
            continue
        for k in range(60 if want_both else 25):
            res = mutate.apply_random(mutate.BREAKING, p, rng, KINDS)
            if not res:
                continue
            q, e = res
            rec = p.find_type(e.type_name.split(":", 1)[1])
            is_priv = getattr(rec, "where", "public") == "private"
            if is_priv != want_private:
                q = None
                continue
            if e.kind == "change-member-type" and " -> " in (e.detail or ""):
                # a same-size change (int <-> float) can be classified harmless on a path through a union (the C05 finding):
                # only size-changing member type changes promise a report here
                o_, n_ = e.detail.split(" -> ")
                if mutate._SIZES.get(o_) == mutate._SIZES.get(n_):
                    q = None
                    continue
            if want_both and attempt < 8 and not near_privates(rec):
                q = None
                continue
            if not want_private:
                # a using interface must reach the struct without crossing a private struct
                users = [u for u in p.exported_functions() + p.exported_variables()
                         if any(t is rec for t in reach_public(p, u.ftype if isinstance(u, progen.Function) else u.type))]
                if not users:
                    q = None
                    continue
                e.affected = [u.name for u in users]
            break
        if q is not None:
            break
    if q is None:
        return r.skip("no-suitable-mutation")
    both = False
    if want_both:
        # additionally change a private struct: the public change must still be reported
        # preferably a private struct that the mutated public struct itself points to
        near = near_privates(q.find_type(e.type_name.split(":", 1)[1]))
        for k in range(60):
            res = mutate.apply_random(mutate.BREAKING, q, rng, KINDS)
            if not res:
                continue
            q2, e2 = res
            rec2 = q.find_type(e2.type_name.split(":", 1)[1])
            if rec2 is not None and getattr(rec2, "where", "public") == "private" and e2.type_name != e.type_name \
                    and (not near or rec2.name in near or k >= 40):
                q, both = q2, True
                break
    cfg = wl.pick_config(rng, kinds=("so", "so", "exec"))
    try:
        a = cc.build(p, os.path.join(d, "a"), **cfg)
        b = cc.build(q, os.path.join(d, "b"), **cfg)
    except cc.CompileError:
        return r.skip("compile-error")
    for side in ("a", "b"):
        hd = os.path.join(d, "hdr_" + side)
        os.makedirs(hd, exist_ok=True)
        shutil.copy(os.path.join(d, side, "public.h"), hd)
    style = rng.choice(["dir", "file"])
    if style == "dir":
        hopts = ["--headers-dir1", os.path.join(d, "hdr_a"), "--headers-dir2", os.path.join(d, "hdr_b")]
    else:
        hopts = ["--header-file1", os.path.join(d, "hdr_a", "public.h"), "--header-file2", os.path.join(d, "hdr_b", "public.h")]
    # A public struct that has a pointer member to a private struct is in the same situation as the public+private class
    # even when nothing private was mutated: a private struct it reaches has a non-empty diff as soon as it reaches back to the
    # changed public struct (a reference cycle), and is filtered as private
    fam = both or (not want_private and in_cycle_with_private(p, pr_rec(p, e)))
    what = "%s on %s struct %s%s; %s; %s" % (e.kind, "private" if want_private else "public", e.type_name,
                                             " + a change to a private struct" if both else "", style, wl.describe_cfg(cfg))
    ctrl = wl.tool_run(ctx, "abidiff", [a, b], d)
    filt = wl.tool_run(ctx, "abidiff", hopts + [a, b], d)
    for res in (ctrl, filt):
        if run.abnormal(res):
            wl.abnormal_violation(r, res, "abidiff [%s]" % what)
            return r
    if not (ctrl.rc and ctrl.rc & 4):
        return r.skip("control-run-reports-nothing")
    rc_, rf = report.Report(ctrl.stdout), report.Report(filt.stdout)
    if rc_.unparsed or rf.unparsed:
        return r.inconclusive("unparsed-report-line:" + (rc_.unparsed + rf.unparsed)[0][:80])
    r.evaluations += 1
    r.add("targets", ("private" if want_private else "public+private" if both else "public") + ":" + style)

    def changed(rep):
        s = set()
        for kind in ("fn-changed", "var-changed"):
            for en in rep.entries(kind):
                for n in [x.name for x in p.functions + p.variables]:
                    if en.mentions(n):
                        s.add(n)
        return s
    if want_private:
        if filt.rc != 0 or changed(rf):
            # a public type that refers to itself ("as being reported") and reaches the private struct: the report then
            # holds the public type's diff with every real change filtered - a family of its own
            cyc = ":through-self-referencing-public-type" if ("as being reported" in filt.stdout and "filtered)" in filt.stdout) else ""
            r.violate("oracle:C26:private-change-not-filtered%s" % (cyc or ":%s:%s" % (style, e.kind)),
                      "a change to a struct defined only in the private header is still reported with the header options: exit %s, interfaces %s (%s)"
                      % (filt.rc, sorted(changed(rf))[:4], what), control=ctrl.brief(), filtered=filt.brief())
    else:
        if not (filt.rc and filt.rc & 4) or not (changed(rf) & set(e.affected)):
            r.violate("oracle:C26:public-change-filtered-together-with-private-change:%s" % e.kind if fam else
                      "oracle:C26:public-change-filtered:%s:%s" % (style, e.kind),
                      "a change to a struct defined in the public header is no longer reported with the header options: exit %s, interfaces %s, expected one of %s (%s)"
                      % (filt.rc, sorted(changed(rf))[:4], e.affected[:4], what), control=ctrl.brief(), filtered=filt.brief())
        drop = wl.tool_run(ctx, "abidiff", hopts + ["--drop-private-types", a, b], d)
        r.evaluations += 1
        if run.abnormal(drop):
            wl.abnormal_violation(r, drop, "abidiff --drop-private-types [%s]" % what)
        else:
            rd = report.Report(drop.stdout)
            # (when a private struct changed as well, which of the using interfaces carries the - single - report of the
            # public change may differ: only the status is compared then)
            if not rd.unparsed and (drop.rc != filt.rc or (changed(rd) != changed(rf) and not fam)):
                r.violate("oracle:C26:drop-private-types-changes-verdict%s:%s" % ("-together-with-private-change" if fam else "", e.kind),
                          "--drop-private-types changes the verdict on a public change: exit %s vs %s, interfaces %s vs %s (%s)"
                          % (drop.rc, filt.rc, sorted(changed(rd))[:4], sorted(changed(rf))[:4], what), filtered=filt.brief(), dropped=drop.brief())
    r.nontrivial = True
    r.digest = core.digest(progen.source_digest(progen.render(p)), progen.source_digest(progen.render(q)), style)
    r.sample = {"mutation": e.to_json(), "target": "private" if want_private else "public", "style": style,
                "control_status": ctrl.rc, "filtered_status": filt.rc}
    return r
