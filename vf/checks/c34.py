"""C34 - reading any ELF input is memory-safe and never aborts in libabigail."""
import os
import random
from .. import core, wl, run, progen, cc, elfmut
from . import c18

PROP = "C34"
LEVEL = "exploration"
FLAVORS = ["asan"]
ENGINE = "hostile-input"
TECHNIQUE = "sanitizer monitoring (ASan+UBSan, hardened libstdc++, identified ABG_ASSERTs) of abidw / abidiff / abisym fed targeted corruptions of valid ELF binaries; faulting frames inside elfutils classified separately"
LEVEL_TEXT = ("valid binaries (DSO, PIE, relocatable; ld.bfd and ld.lld; sysv / gnu / both hash styles; versioned symbols) are corrupted "
              "with an own ELF64 parser: section header fields (sh_size, sh_entsize, sh_link, sh_info, sh_offset, sh_type ...), symbol "
              "fields (st_name, st_shndx, st_value ...), words of .hash / .gnu.hash / .gnu.version* / .dynamic, bytes of .debug_info / "
              ".debug_abbrev / .debug_str / .debug_line and string tables, ELF header fields, truncations and random flips.  abidw, abidiff "
              "(against the pristine binary) and abisym run on the ASan+UBSan build.  A crash whose innermost non-runtime frame is in "
              "libelf/libdw is recorded as 'elfutils' and not counted against libabigail.")
LEVEL_NOTE = "binaries come from 8 fixed-per-run generated programs; the variable under test is the corruption"
ASSUMPTIONS = [LEVEL_NOTE, "frames are attributed by symbol name (dwarf_*/elf_*/gelf_*/dwfl_* = elfutils)"]

NBINS = 8


def plan(tier):
    return {"n": 200 if tier == "quick" else 1600, "floor": 50 if tier == "quick" else 384}


def rule(tier):
    return ("case = one corrupted copy (1-3 stacked corruptions) of one of %d binaries, read by abidw, by abidiff against the pristine "
            "binary, and by abisym (a present and an absent name); evaluations = tool executions monitored; non-trivial = corrupted "
            "file differs from the original; distinct by digest" % NBINS)


def prepare(ctx):
    bins = []
    # a fixed directory (not the per-process run directory): the paths end up inside the inputs (file paths in ABIXML, the
    # compilation directory in DWARF) and the position-based mutations must hit the same bytes in every run
    import fcntl
    import shutil
    from .. import build
    fixed = os.path.join(build.WORK, "fixed", "C34-%s" % ctx.tier)
    os.makedirs(fixed, exist_ok=True)
    lock = open(os.path.join(fixed, ".lock"), "w")
    fcntl.flock(lock, fcntl.LOCK_EX)        # released when the check's main process exits
    ctx.shared["lock"] = lock
    base = os.path.join(fixed, "bins")
    shutil.rmtree(base, ignore_errors=True)
    seed = 700
    while len(bins) < NBINS:
        seed += 1
        rng = random.Random(seed)
        k = len(bins)
        d = os.path.join(base, str(k))
        p = progen.generate(rng, progen.GenOpts(ntypes=8, nfuncs=5, nvars=3, ntus=2), nonce="c34%d" % k)
        kind = ["so", "so", "so", "exec", "rel", "so", "so", "so"][k]
        c18.decorate(p, rng, kind)
        linker = [None, "lld", "bfd", None, None, "lld", "bfd", None][k]
        ldextra = [[], ["-Wl,--hash-style=sysv"], ["-Wl,--hash-style=both"], [], [], ["-Wl,--hash-style=gnu"], ["-Wl,--hash-style=sysv"], []][k]
        try:
            binp = cc.build(p, d, family="gcc" if k % 2 else "clang", dwarf=4 + k % 2, kind=kind, linker=linker, ldextra=ldextra)
        except cc.CompileError:
            continue
        fn = p.exported_functions()[0].name if p.exported_functions() else "main"
        bins.append((binp, open(binp, "rb").read(), fn))
    ctx.shared["bins"] = bins


def case(ctx, i):
    rng = ctx.rng(i)
    r = core.CaseResult()
    d = ctx.casedir(i)
    binp, data, fn = ctx.shared["bins"][i % NBINS]
    kinds = []
    m = data
    for _ in range(rng.choice([1, 1, 1, 2, 3])):
        k, m = elfmut.mutate(rng, m)
        kinds.append(k)
    path = os.path.join(d, "corrupt" + os.path.splitext(binp)[1])
    with open(path, "wb") as fh:
        fh.write(m)
    what = "+".join(kinds)
    runs = [("abidw", ["--out-file", os.path.join(d, "o.abi"), path]), ("abidiff", [path, binp] if i % 2 else [binp, path]),
            ("abisym", [path, fn]), ("abisym", [path, "verif_no_such_symbol"])]
    for tool, args in runs:
        res, hang = wl.run_must_terminate(ctx, tool, args, d, flavor="asan")
        r.evaluations += 1
        if hang or run.abnormal(res):
            key = res.key
            if key.endswith("@elfutils") or key.endswith("@libxml2"):
                r.count("crash_inside_" + key.rsplit("@", 1)[1])
                r.add("library_crashes", key)
                continue
            if key.startswith("san:stack-overflow"):
                key = "san:stack-overflow:unbounded-recursion"
            r.violate(key, "%s on a corrupted ELF (%s): %s" % (tool, what, res.key), run=res.brief(), corruptions=kinds)
    for k in kinds:
        r.add("corruption_kinds", k.split(":")[0])
    r.nontrivial = m != data
    r.digest = core.digest(m)
    r.sample = {"corruptions": kinds, "binary": i % NBINS, "bytes": len(m)}
    return r
