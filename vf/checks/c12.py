"""C12 - presentation options never change the verdict."""
import re
from .. import core, wl, run, mutate, pairs, report

PROP = "C12"
LEVEL = "exploration"
FLAVORS = ["plain"]
ENGINE = "cli-oracle"
TECHNIQUE = "metamorphic runtime oracle: abidiff with random subsets of presentation options vs abidiff without them: equal exit status and equal sets of removed/added/changed interfaces"
LEVEL_TEXT = ("program pairs with 1-4 mixed mutations are compared once with default options and then with random subsets of the listed "
              "presentation options; the exit status and the sets of removed, added and changed interfaces (parsed from the reports, "
              "identified by symbol id / interface name) must not change.")
LEVEL_NOTE = "--no-architecture is used on same-architecture pairs only (always true here); no suppression refers to file names; --no-linkage-name removes the {symbol} of an entry so interfaces are identified by source name there"
ASSUMPTIONS = [LEVEL_NOTE]

POPTS = [["--no-show-locs"], ["--show-bytes"], ["--show-bits"], ["--show-hex"], ["--show-dec"], ["--no-linkage-name"],
         ["--no-show-relative-offset-changes"], ["--no-corpus-path"], ["--no-architecture"]]


def plan(tier):
    return {"n": 200 if tier == "quick" else 800, "floor": 50 if tier == "quick" else 200}


def rule(tier):
    return ("case = one pair (1-4 mixed mutations) x one configuration x %d random subsets of %d presentation options; evaluations = "
            "option subsets judged; non-trivial = the default run reports >=1 removed/added/changed interface; distinct by digest of "
            "both sources" % (4, len(POPTS)))


def iface_sets(rep, names):
    out = {}
    for kind in rep.section_order:
        s = set()
        for e in rep.entries(kind):
            hit = sorted(n for n in names if e.mentions(n))
            if hit:
                s.add(hit[0])
            else:
                sy = e.symbols()
                s.add(sy[0].split("@")[0] if sy else re.sub(r" at \S+:\d+:\d+", "", e.text)[:80])
        out[kind] = s
    return out


def subset(rng):
    s = []
    for o in rng.sample(POPTS, rng.randint(1, 4)):
        s.extend(o)
    if "--show-bytes" in s and "--show-bits" in s:
        s.remove("--show-bits")
    if "--show-hex" in s and "--show-dec" in s:
        s.remove("--show-dec")
    return s


def case(ctx, i):
    rng = ctx.rng(i)
    r = core.CaseResult()
    d = ctx.casedir(i)
    pr, why = pairs.make_pair(ctx, rng, d, mutate.MIXED, nmut=rng.randint(1, 4))
    if pr is None:
        return r.skip(why)
    what = "+".join(e.kind for e in pr.expects) + " " + wl.describe_cfg(pr.cfg)
    names = {x.name for x in pr.p.functions + pr.p.variables + pr.q.functions + pr.q.variables}
    base = wl.tool_run(ctx, "abidiff", [pr.a, pr.b], d)
    if run.abnormal(base):
        wl.abnormal_violation(r, base, "abidiff [%s]" % what)
        return r
    rb = report.Report(base.stdout)
    if rb.unparsed:
        return r.inconclusive("unparsed-report-line:" + rb.unparsed[0][:80])
    sb = iface_sets(rb, names)
    for k in range(4):
        s = subset(rng)
        res = wl.tool_run(ctx, "abidiff", s + [pr.a, pr.b], d)
        r.evaluations += 1
        r.add("option_subsets", " ".join(s))
        if run.abnormal(res):
            wl.abnormal_violation(r, res, "abidiff %s [%s]" % (" ".join(s), what))
            continue
        optc = "+".join(sorted(x.lstrip("-") for x in s))
        if res.rc != base.rc:
            r.violate("oracle:C12:status-changed", "exit status %s with '%s' but %s without (%s)" % (res.rc, " ".join(s), base.rc, what), run=res.brief())
            continue
        rp = report.Report(res.stdout)
        if rp.unparsed:
            r.count("unparsed_reports")
            continue
        sp = iface_sets(rp, names)
        if sp != sb:
            diffk = sorted(k2 for k2 in set(sp) | set(sb) if sp.get(k2) != sb.get(k2))
            r.violate("oracle:C12:interfaces-changed:" + "+".join(diffk[:2]),
                      "options '%s' change the reported interface sets in %s: %s vs %s (%s)"
                      % (" ".join(s), diffk, {k2: sorted(sp.get(k2, []))[:3] for k2 in diffk}, {k2: sorted(sb.get(k2, []))[:3] for k2 in diffk}, what))
    r.nontrivial = any(sb.values())
    r.digest = pr.digest
    r.add("configs", wl.describe_cfg(pr.cfg))
    r.sample = {"mutations": [e.kind for e in pr.expects], "config": wl.describe_cfg(pr.cfg), "status": base.rc,
                "sections": {k: len(v) for k, v in sb.items()}}
    return r
