"""C13 - leaf-change report mode gives the same verdict as the default mode."""
from .. import core, wl, run, mutate, pairs, report

PROP = "C13"
LEVEL = "exploration"
FLAVORS = ["plain"]
ENGINE = "cli-oracle"
TECHNIQUE = "metamorphic runtime oracle: abidiff --leaf-changes-only --impacted-interfaces vs default mode: equal status bits, every default-mode [C] interface impacted by or reported as a leaf change"
LEVEL_TEXT = ("program pairs with 1-4 mutations are compared in default and in leaf mode (with --impacted-interfaces); the exit status "
              "bits must be equal, and every interface with a [C] entry in default mode must be listed among the impacted interfaces of "
              "some leaf change or have a [C] entry of its own in leaf mode.")
LEVEL_NOTE = "interfaces are matched by source name inside the pretty representation printed by the tool"
ASSUMPTIONS = [LEVEL_NOTE]


def plan(tier):
    return {"n": 250 if tier == "quick" else 1000, "floor": 60 if tier == "quick" else 250}


def rule(tier):
    return ("case = one pair (1-4 mixed mutations) x one configuration; evaluations = status comparisons + default-mode changed "
            "interfaces looked up in the leaf report; non-trivial = default mode reports >=1 changed interface; distinct by digest")


def case(ctx, i):
    rng = ctx.rng(i)
    r = core.CaseResult()
    d = ctx.casedir(i)
    pr, why = pairs.make_pair(ctx, rng, d, mutate.MIXED, nmut=rng.randint(1, 4))
    if pr is None:
        return r.skip(why)
    what = "+".join(e.kind for e in pr.expects) + " " + wl.describe_cfg(pr.cfg)
    names = {x.name for x in pr.p.functions + pr.p.variables + pr.q.functions + pr.q.variables}
    # the statement compares the two report *modes* under otherwise default options
    extra = rng.choice([[], [], ["--redundant"]])
    dflt = wl.tool_run(ctx, "abidiff", extra + [pr.a, pr.b], d)
    leaf = wl.tool_run(ctx, "abidiff", extra + ["--leaf-changes-only", "--impacted-interfaces", pr.a, pr.b], d)
    for res in (dflt, leaf):
        if run.abnormal(res):
            wl.abnormal_violation(r, res, "abidiff [%s]" % what)
            return r
    r.evaluations += 1
    feat = "other"
    if any(has_anonymous_member(pr.p, e.type_name) for e in pr.expects if e.type_name):
        feat = "record-with-anonymous-member"
    if any(swapped_pointer_members(pr.p, e) for e in pr.expects if e.kind == "reorder-members"):
        feat = "swapped-pointer-members"
    if any(has_self_pointer(pr.p, e.type_name) for e in pr.expects if e.type_name):
        feat = "selfptr-member"
    rn = {a for e in pr.expects if e.kind == "rename-typedef" for a in e.affected}
    cv = {a for e in pr.expects if e.kind == "param-top-cv" for a in e.affected}
    if rn & cv:
        feat = "typedef-rename-plus-top-cv-on-one-function"
    if dflt.rc != leaf.rc:
        r.violate("oracle:C13:status-differs:%s-vs-%s:%s" % (dflt.rc, leaf.rc, feat),
                  "default mode exits %s, leaf mode %s (%s %s)" % (dflt.rc, leaf.rc, " ".join(extra), what), default=dflt.brief(), leaf=leaf.brief())
    rd, rl = report.Report(dflt.stdout), report.Report(leaf.stdout)
    if rd.unparsed or rl.unparsed:
        return r.inconclusive("unparsed-report-line:" + (rd.unparsed + rl.unparsed)[0][:80])
    changed = set()
    for kind in ("fn-changed", "var-changed"):
        for e in rd.entries(kind):
            hit = sorted(n for n in names if e.mentions(n))
            if hit:
                changed.add(hit[0])
    leaf_text_ifaces = "\n".join(rl.impacted)
    leaf_changed = set()
    for kind in ("fn-changed", "var-changed"):
        for e in rl.entries(kind):
            for n in names:
                if e.mentions(n):
                    leaf_changed.add(n)
    import re
    for n in sorted(changed):
        r.evaluations += 1
        if n in leaf_changed:
            continue
        if re.search(r"(?<![\w])%s(?![\w])" % re.escape(n), leaf_text_ifaces):
            continue
        r.violate("oracle:C13:interface-missing-in-leaf-mode:" + feat, "%s has a [C] entry in default mode but is neither impacted by a leaf change nor "
                  "reported itself in leaf mode (%s %s)" % (n, " ".join(extra), what), default=dflt.brief(), leaf=leaf.brief())
    r.nontrivial = bool(changed)
    r.digest = pr.digest
    r.add("configs", wl.describe_cfg(pr.cfg))
    r.sample = {"mutations": [e.kind for e in pr.expects], "config": wl.describe_cfg(pr.cfg), "status": dflt.rc, "changed_default_mode": sorted(changed)[:5]}
    return r


def swapped_pointer_members(prog, e):
    """Did 'reorder-members' swap two members that are both pointers (to whatever)?"""
    from .. import progen
    rec = prog.find_type(e.type_name.split(":", 1)[1]) if e.type_name and ":" in e.type_name else None
    if not isinstance(rec, progen.Record):
        return False

    def holders(r_):
        yield r_
        for f in r_.fields:
            if isinstance(f.type, progen.Record) and f.type.name is None:
                for h in holders(f.type):
                    yield h
    for h in holders(rec):
        names = [f.name for f in h.fields]
        if e.entity in names:
            k = names.index(e.entity)       # in the original program the entity sits right after its partner
            if k >= 1:
                a, b = progen.resolve(h.fields[k - 1].type), progen.resolve(h.fields[k].type)
                return isinstance(a, progen.Pointer) and isinstance(b, progen.Pointer)
    return False


def has_self_pointer(prog, type_key):
    """Does the (mutated) record hold a pointer to itself (directly or inside an anonymous member)?"""
    from .. import progen
    name = type_key.split(":", 1)[1] if ":" in type_key else type_key
    rec = prog.find_type(name)
    if not isinstance(rec, progen.Record):
        return False

    def walk(r_):
        for f in r_.fields:
            t = f.type
            if isinstance(t, progen.Record) and t.name is None:
                if walk(t):
                    return True
            while isinstance(t, (progen.Qualified, progen.Array)):
                t = t.to if isinstance(t, progen.Qualified) else t.elem
            if isinstance(t, progen.Pointer):
                tt = t.to
                while isinstance(tt, progen.Qualified):
                    tt = tt.to
                if tt is rec:
                    return True
        return False
    return walk(rec)


def has_anonymous_member(prog, type_key):
    from .. import progen
    name = type_key.split(":", 1)[1] if ":" in type_key else type_key
    rec = prog.find_type(name)
    if not isinstance(rec, progen.Record):
        return False
    return any(isinstance(f.type, progen.Record) and f.type.name is None for f in rec.fields)
