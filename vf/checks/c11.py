"""C11 - removal in one direction is addition in the other."""
import re
from .. import core, wl, run, mutate, pairs, report
from . import c18

PROP = "C11"
LEVEL = "exploration"
FLAVORS = ["plain"]
ENGINE = "cli-oracle"
TECHNIQUE = "metamorphic runtime oracle: abidiff A B vs abidiff B A (--no-default-suppression --redundant --harmless): removed sets must equal the other direction's added sets and the changed sets must coincide"
LEVEL_TEXT = ("program pairs with 1-5 mutations from the mixed and the symbol-level catalogs (version nodes, unversioned -> default "
              "version, aliases added/removed, TUs without debug info) are compared in both orders; per category (functions, variables, "
              "function symbols, variable symbols) the symbol ids listed as removed by one direction must be exactly those listed as "
              "added by the other, and the interface names with a [C] entry must be the same in both.")
LEVEL_NOTE = "interfaces are identified by ELF symbol id ({...} of the entry) for removed/added and by source name for changed entries"
ASSUMPTIONS = [LEVEL_NOTE, "added interfaces are shown (default options show them)"]

CATS = [("fn-removed", "fn-added", "function"), ("var-removed", "var-added", "variable"),
        ("fsym-removed", "fsym-added", "function-symbol"), ("vsym-removed", "vsym-added", "variable-symbol")]


def plan(tier):
    return {"n": 250 if tier == "quick" else 1000, "floor": 60 if tier == "quick" else 250}


def rule(tier):
    return ("case = one pair (1-5 mutations: mixed catalog, plus symbol-level ones on shared objects) x one configuration; evaluations = "
            "set comparisons (4 removed/added categories x 2 directions + changed sets); non-trivial = at least one removed/added/changed "
            "interface reported in some direction; distinct by digest of both sources")


def ids(entries):
    out = set()
    for e in entries:
        s = e.symbols()
        out.add(s[0] if s else e.text)
    return out


def changed_names(rep, names):
    out = set()
    for kind in ("fn-changed", "var-changed"):
        for e in rep.entries(kind):
            hit = [n for n in names if e.mentions(n)]
            # implementation names of versioned functions (f__v, f__n, f__o<k>) are the generator's own artefact: the
            # interface is f whatever name its implementation has on either side
            out.add(re.sub(r"__(v|n|o\d)$", "", hit[0]) if hit else e.text[:60])
    return out


def case(ctx, i):
    rng = ctx.rng(i)
    r = core.CaseResult()
    d = ctx.casedir(i)
    symbolic = rng.random() < 0.5
    cfg = wl.pick_config(rng, kinds=("so",)) if symbolic else None

    def deco(p, rng_):
        if symbolic:
            c18.decorate(p, rng_, "so")
        if p.ntus >= 2 and rng_.random() < (0.5 if symbolic else 0.3):
            p.tu_nodebug.add(p.ntus - 1)
    cat = dict(mutate.MIXED)
    cat.update(mutate.EXTRA)       # + anonymous members becoming named and back (layout preserving)
    if symbolic:
        cat.update(mutate.SYMBOL)
    pr, why = pairs.make_pair(ctx, rng, d, cat, nmut=rng.randint(1, 5), decorate=deco, cfg=cfg)
    if pr is None:
        return r.skip(why)
    what = "+".join(e.kind for e in pr.expects) + " " + wl.describe_cfg(pr.cfg)
    # --harmless: the harmless/harmful classification is direction dependent by design (appending an
    # enumerator is harmless, removing one is not), so the changed sets are compared with every category shown
    opts = ["--no-default-suppression", "--redundant", "--harmless"]
    fw = wl.tool_run(ctx, "abidiff", opts + [pr.a, pr.b], d)
    bw = wl.tool_run(ctx, "abidiff", opts + [pr.b, pr.a], d)
    for res in (fw, bw):
        if run.abnormal(res):
            wl.abnormal_violation(r, res, "abidiff [%s]" % what)
            return r
    rf, rb = report.Report(fw.stdout), report.Report(bw.stdout)
    if rf.unparsed or rb.unparsed:
        return r.inconclusive("unparsed-report-line:" + (rf.unparsed + rb.unparsed)[0][:80])
    any_change = False
    kinds = "+".join(sorted({e.kind for e in pr.expects if e.kind in mutate.SYMBOL})) or "plain"
    for rem, add, label in CATS:
        for x, y, dirn in ((rf, rb, "A->B"), (rb, rf, "B->A")):
            removed, added = ids(x.entries(rem)), ids(y.entries(add))
            r.evaluations += 1
            any_change = any_change or bool(removed or added)
            if removed != added:
                only_r, only_a = sorted(removed - added), sorted(added - removed)
                texts = [e.text for e in x.entries(rem) + y.entries(add) if (e.symbols() or [e.text])[0] in set(only_r) | set(only_a)]
                feat = classify(only_r, only_a, pr, texts)
                r.violate("oracle:C11:asymmetric:%s:%s" % (label, feat),
                          "%s: %s removed %s but the opposite direction lists as added %s (only-removed %s, only-added %s) [%s]"
                          % (dirn, label, sorted(removed)[:4], sorted(added)[:4], only_r[:3], only_a[:3], what))
    names = {x.name for x in pr.p.functions + pr.p.variables + pr.q.functions + pr.q.variables}
    names |= {n + sfx for n in names for sfx in ("__v", "__n", "__o0")}     # implementation names of versioned functions
    cf, cb = changed_names(rf, names), changed_names(rb, names)
    r.evaluations += 1
    any_change = any_change or bool(cf or cb)
    if cf != cb:
        r.violate("oracle:C11:changed-sets-differ", "A->B reports changes for %s, B->A for %s [%s]" % (sorted(cf)[:5], sorted(cb)[:5], what))
    r.nontrivial = any_change
    r.digest = pr.digest
    for e in pr.expects:
        r.add("mutation_kinds", e.kind)
    r.add("configs", wl.describe_cfg(pr.cfg))
    r.sample = {"mutations": [e.kind for e in pr.expects], "config": wl.describe_cfg(pr.cfg), "forward_status": fw.rc, "backward_status": bw.rc}
    return r


def classify(only_r, only_a, pr, texts=()):
    """Is the asymmetry about a symbol that is unversioned on one side and default-versioned on the other?"""
    names_r = {x.split("@")[0] for x in only_r}
    names_a = {x.split("@")[0] for x in only_a}
    versioned = [x for x in only_r + only_a if "@@" in x]
    if versioned and any(e.kind == "add-default-version" for e in pr.expects):
        return "default-version"
    if versioned:
        return "versioned"
    if any("@@" in t for t in texts):
        return "alias-of-versioned"
    # the generator names aliases <function>_al<k> / _alias<k> / _nal<k>
    if any(re.search(r"_(al|alias|nal)\d*$", x.split("@")[0]) for x in only_r + only_a):
        return "alias-group-member"
    return "other"
