"""C10 - report summaries agree with the listed entries; --stat equals the summary of the full report."""
import os
from .. import core, wl, run, mutate, pairs, report
from . import c08

PROP = "C10"
LEVEL = "exploration"
FLAVORS = ["plain"]
ENGINE = "cli-oracle"
TECHNIQUE = "runtime oracle over parsed reports: summary counters vs section headlines vs counted [D]/[A]/[C] entries, and --stat vs the summary lines of the full report"
LEVEL_TEXT = ("program pairs with 2-6 mixed mutations (removed, added, changed functions and variables; pairs built without debug info in "
              "one TU so that symbol-only sections appear, some functions carrying ELF aliases) are compared with default options, with "
              "--redundant --harmless, and with a generated suppression specification naming what was mutated; for every section the net "
              "summary counter, the section headline number and the number of listed entries must be equal, filtered-out counts must not "
              "exceed what the --redundant/--harmless run shows as total, and 'abidiff --stat' must print exactly the summary lines of the "
              "full report.")
LEVEL_NOTE = "options that hide sections are not used here (a hidden section is legitimately counted but not listed)"
ASSUMPTIONS = [LEVEL_NOTE, "report grammar as in DESIGN appendix C; an unparsed line makes the case inconclusive"]

SECTION_OF = {("fn", "removed"): "fn-removed", ("fn", "changed"): "fn-changed", ("fn", "added"): "fn-added",
              ("var", "removed"): "var-removed", ("var", "changed"): "var-changed", ("var", "added"): "var-added",
              ("fsym", "removed"): "fsym-removed", ("fsym", "added"): "fsym-added",
              ("vsym", "removed"): "vsym-removed", ("vsym", "added"): "vsym-added"}


def m_remove_aliased_function(prog, rng):
    """Remove an exported function together with its ELF aliases (the removed symbol then has aliases in the old binary)."""
    c = [f for f in prog.exported_functions() if f.aliases and f.visibility != "hidden"]
    if not c or len(prog.exported_functions()) < 2:
        return None
    f = rng.choice(c)
    q = prog.clone()
    q.functions = [x for x in q.functions if x.name != f.name]
    names = [f.name] + [a for a, _w in f.aliases]
    return q, mutate.Expect("remove-aliased-function", affected=[f.name], removed=names)


CATALOG = dict(mutate.MIXED)
CATALOG["remove-aliased-function"] = m_remove_aliased_function


def plan(tier):
    return {"n": 250 if tier == "quick" else 1000, "floor": 60 if tier == "quick" else 240}


def rule(tier):
    return ("case = one program pair with 2-6 mixed mutations x one configuration, compared with [] and [--redundant --harmless]; "
            "evaluations = counter/section comparisons; non-trivial = >=2 sections populated; distinct by digest of both sources")


def check_report(r, rep, tag, what):
    for (grp, kind), sec in SECTION_OF.items():
        if grp not in rep.summary:
            continue
        net, filt = rep.summary[grp][kind]
        head, entries = rep.sections.get(sec, (0, []))
        r.evaluations += 1
        if net != head:
            r.violate("oracle:C10:summary-vs-headline:%s" % sec, "%s: summary says %d net %s but the section headline says %d (%s)" % (tag, net, sec, head, what))
        if head != len(entries):
            r.violate("oracle:C10:headline-vs-entries:%s" % sec, "%s: section '%s' announces %d entries but lists %d (%s)" % (tag, sec, head, len(entries), what))
    return len([s for s in rep.sections.values() if s[1]])


def case(ctx, i):
    rng = ctx.rng(i)
    r = core.CaseResult()
    d = ctx.casedir(i)

    def deco(p, rng_):
        # one TU without debug info in some cases: symbol-only sections
        if p.ntus >= 2 and rng_.random() < 0.35:
            p.tu_nodebug.add(p.ntus - 1)
        # ELF aliases on some functions, so that removed / changed interfaces with aliased symbols occur
        fns = p.exported_functions()
        if p.lang == "c" and fns:
            for f in rng_.sample(fns, min(len(fns), rng_.choice([0, 1, 1, 2]))):
                f.aliases.append(("%s_alias%d" % (f.name, rng_.randint(1, 9)), False))
    pr, why = pairs.make_pair(ctx, rng, d, CATALOG, nmut=rng.randint(2, 6), decorate=deco,
                              gen_kw={"ntus": rng.choice([1, 2, 3])})
    if pr is None:
        return r.skip(why)
    pr.q.tu_nodebug = set(pr.p.tu_nodebug)
    what = "+".join(e.kind for e in pr.expects) + " " + wl.describe_cfg(pr.cfg)
    populated = 0
    totals = {}
    sf = os.path.join(d, "gen.suppr")
    open(sf, "w").write(c08.suppression_for(pr.expects, rng))
    for opts in ([], ["--redundant", "--harmless"], ["--suppr", sf]):
        res = wl.tool_run(ctx, "abidiff", opts + [pr.a, pr.b], d)
        if run.abnormal(res):
            wl.abnormal_violation(r, res, "abidiff %s [%s]" % (" ".join(opts), what))
            continue
        rep = report.Report(res.stdout)
        if rep.orphans:
            r.evaluations += 1
            r.violate("oracle:C10:entry-without-section:%s" % ("suppr" if "--suppr" in opts else "plain"),
                      "abidiff %s lists %r outside any announced section (summary: %s) (%s)"
                      % (" ".join(o for o in opts if not o.startswith("/")), rep.orphans[0][:120], rep.summary.get("fn"), what))
            continue
        if rep.unparsed:
            return r.inconclusive("unparsed-report-line:" + rep.unparsed[0][:80])
        populated = max(populated, check_report(r, rep, "abidiff " + " ".join(opts), what))
        for grp in (rep.summary if "--suppr" not in opts else ()):
            if isinstance(rep.summary[grp], dict):
                for kind, (net, filt) in rep.summary[grp].items():
                    totals.setdefault((grp, kind), []).append((net, filt))
        # --stat must equal the summary lines of the full report
        st = wl.tool_run(ctx, "abidiff", opts + ["--stat", pr.a, pr.b], d)
        r.evaluations += 1
        if run.abnormal(st):
            wl.abnormal_violation(r, st, "abidiff --stat")
        else:
            full_summary = [l for l in res.stdout.split("\n") if "summary:" in l]
            stat_lines = [l for l in st.stdout.split("\n") if l.strip()]
            if stat_lines != full_summary:
                r.violate("oracle:C10:stat-differs", "abidiff %s --stat prints %r but the full report's summary is %r (%s)"
                          % (" ".join(opts), stat_lines[:3], full_summary[:3], what))
            if st.rc != res.rc:
                r.violate("oracle:C10:stat-status-differs", "--stat exits %s, the full report %s (%s)" % (st.rc, res.rc, what))
    # filtered-out counts never exceed the totals: net+filtered of the default run == net+filtered of the show-all run is not
    # demanded (categories differ); but filtered <= net+filtered trivially, and the default run's net must not exceed the show-all net
    for key, vals in totals.items():
        if len(vals) == 2:
            (n0, f0), (n1, f1) = vals
            r.evaluations += 1
            if n0 > n1 + f1:
                r.violate("oracle:C10:default-net-exceeds-total:%s-%s" % key, "default run lists %d net %s-%s, the --redundant --harmless run only %d (+%d filtered) (%s)"
                          % (n0, key[0], key[1], n1, f1, what))
    r.nontrivial = populated >= 2
    r.digest = pr.digest
    r.add("configs", wl.describe_cfg(pr.cfg))
    for e in pr.expects:
        r.add("mutation_kinds", e.kind)
    r.sample = {"mutations": [e.kind for e in pr.expects], "config": wl.describe_cfg(pr.cfg), "sections_populated": populated}
    return r
