"""C40 - hash-style type ids identify types independently of the document."""
import os
from .. import core, wl, run, mutate, pairs, abixml

PROP = "C40"
LEVEL = "exploration"
FLAVORS = ["plain"]
ENGINE = "cli-oracle"
TECHNIQUE = "metamorphic runtime oracle over abidw --type-id-style hash documents of program pairs sharing types: equal names must have equal ids unless linear probing (id-1 in use) can explain the difference"
LEVEL_TEXT = ("two programs that share most named types (P and a mutated copy; also P built by the other compiler / DWARF version) are "
              "serialized with --type-id-style hash; every named type (struct, union, enum, typedef, basic type) present in both "
              "documents must carry the same id, unless in one of the documents the id just below is in use by another type (ids are "
              "hash + linear probing, so only then can a collision explain a difference).  Pointer, reference, qualified and array "
              "types are compared the same way, matched by a description of what they are made of (anonymous aggregates and enums "
              "by the unique names of their members).  Sound without re-implementing the hash.")
LEVEL_NOTE = "named types are matched by element kind + name, composite types structurally; function types are skipped; ids are parsed as hexadecimal numbers"
ASSUMPTIONS = [LEVEL_NOTE]

NAMED = ("class-decl", "union-decl", "enum-decl", "typedef-decl", "type-decl")


def plan(tier):
    return {"n": 200 if tier == "quick" else 800, "floor": 50 if tier == "quick" else 213}


def rule(tier):
    return ("case = (P, mutated P) built with one configuration, plus P rebuilt with the other compiler; evaluations = shared named types "
            "compared; non-trivial = >= 5 shared named user types; distinct by digest of both sources")


def table(doc):
    t = {}
    used = set()
    for n in doc.root.walk():
        if "id" in n.attrs and n.tag != "elf-symbol":
            try:
                used.add(int(n.attrs["id"], 16))
            except ValueError:
                return None, None
        if n.tag in NAMED and n.attrs.get("is-anonymous") != "yes" and n.attrs.get("name"):
            key = (n.tag, n.attrs["name"], n.attrs.get("is-declaration-only", "no"))
            t.setdefault(key, []).append(int(n.attrs["id"], 16))
    return t, used


COMPOSITE = ("pointer-type-def", "qualified-type-def", "reference-type-def", "array-type-def")


def desc(doc, tid, depth=0):
    """Document-independent description of a type: named types by name, anonymous aggregates / enums by the names of their
    members (member and enumerator names of generated programs are unique), composites by the description of what they
    are made of.  None = cannot be described (function types, ...)."""
    n = doc.node_of(tid)
    if n is None or depth > 40:
        return None
    t, a = n.tag, n.attrs
    if t in ("class-decl", "union-decl"):
        if a.get("is-anonymous") == "yes":
            names = tuple(v.attrs.get("name") for dm in n.find("data-member") for v in dm.find("var-decl"))
            return (t + "-anonymous", names) if names and all(names) else None
        return (t, a.get("name"))
    if t == "enum-decl":
        if a.get("is-anonymous") == "yes":
            names = tuple(e.attrs.get("name") for e in n.find("enumerator"))
            return ("enum-anonymous", names) if names else None
        return (t, a.get("name"))
    if t in ("typedef-decl", "type-decl"):
        return (t, a.get("name"))
    if t in COMPOSITE:
        u = desc(doc, a.get("type-id"), depth + 1)
        if u is None:
            return None
        extra = ()
        if t == "qualified-type-def":
            extra = (a.get("const", "no"), a.get("volatile", "no"), a.get("restrict", "no"))
        elif t == "reference-type-def":
            extra = (a.get("kind", ""),)
        elif t == "array-type-def":
            extra = tuple(sr.attrs.get("length", "") for sr in n.find("subrange"))
        return (t, extra, u)
    return None


def composite_table(doc):
    t = {}
    for n in doc.root.walk():
        if n.tag in COMPOSITE and "id" in n.attrs:
            dsc = desc(doc, n.attrs["id"])
            if dsc is not None:
                t.setdefault(dsc, []).append(int(n.attrs["id"], 16))
    return t


def case(ctx, i):
    rng = ctx.rng(i)
    r = core.CaseResult()
    d = ctx.casedir(i)
    pr, why = pairs.make_pair(ctx, rng, d, mutate.MIXED, nmut=rng.randint(1, 4))
    if pr is None:
        return r.skip(why)
    docs = []
    for tag, binp in (("a", pr.a), ("b", pr.b)):
        xml = os.path.join(d, tag + ".abi")
        w = wl.abidw(ctx, binp, xml, ["--type-id-style", "hash"])
        if run.abnormal(w):
            wl.abnormal_violation(r, w, "abidw --type-id-style hash")
            return r
        if w.rc != 0:
            return r.skip("abidw-failed")
        docs.append(abixml.Doc(open(xml, "rb").read()))
    ta, ua = table(docs[0])
    tb, ub = table(docs[1])
    if ta is None or tb is None:
        r.violate("oracle:C40:non-hex-id", "a hash-style document carries an id that is not hexadecimal")
        return r
    shared_user = 0
    for key in sorted(set(ta) & set(tb)):
        ia, ib = ta[key], tb[key]
        if len(ia) != 1 or len(ib) != 1:
            r.count("same_name_twice_in_one_document")
            continue        # the name collides with itself inside one document: probing is expected
        r.evaluations += 1
        if key[0] != "type-decl":
            shared_user += 1
        if ia[0] != ib[0]:
            # can probing explain it?  only if the slot just below is occupied in the document with the larger id
            hi, hu = (ia[0], ua) if ia[0] > ib[0] else (ib[0], ub)
            if (hi - 1) in hu:
                r.count("difference_explained_by_probing")
                continue
            r.violate("oracle:C40:ids-differ:" + key[0], "%s '%s' has id %08x in one document and %08x in the other, and no collision can explain it (%s)"
                      % (key[0], key[1], ia[0], ib[0], wl.describe_cfg(pr.cfg)))
    # pointer / qualified / reference / array types over the same described type (anonymous pointees included)
    ca, cb = composite_table(docs[0]), composite_table(docs[1])
    for key in sorted(set(ca) & set(cb), key=repr):
        ia, ib = ca[key], cb[key]
        if len(ia) != 1 or len(ib) != 1:
            r.count("same_composite_twice_in_one_document")
            continue
        r.evaluations += 1
        r.count("composite_types_compared")
        if ia[0] != ib[0]:
            hi, hu = (ia[0], ua) if ia[0] > ib[0] else (ib[0], ub)
            if (hi - 1) in hu:
                r.count("difference_explained_by_probing")
                continue
            r.violate("oracle:C40:ids-differ:" + key[0] + (":anonymous-pointee" if "anonymous" in repr(key) else ""),
                      "%s over %s has id %08x in one document and %08x in the other, and no collision can explain it (%s)"
                      % (key[0], repr(key[2])[:120], ia[0], ib[0], wl.describe_cfg(pr.cfg)))
    r.nontrivial = shared_user >= 5
    r.digest = pr.digest
    r.count("shared_types_compared", r.evaluations)
    r.sample = {"mutations": [e.kind for e in pr.expects], "config": wl.describe_cfg(pr.cfg), "shared_named_types": r.evaluations,
                "example": {"%s %s" % (k[0], k[1]): "%08x" % v[0] for k, v in list(ta.items())[:3]}}
    return r
