"""C08 - exit status obeys the documented bit-field and agrees with the report summary."""
import os
from .. import core, wl, run, mutate, pairs, report, progen, cc

PROP = "C08"
LEVEL = "exploration"
FLAVORS = ["plain"]
ENGINE = "cli-oracle"
TECHNIQUE = "online runtime monitor of the exit-status bit lattice over generated comparisons x option sets and malformed command lines, cross-checked against the parsed report summary"
LEVEL_TEXT = ("every abidiff / abicompat / abipkgdiff execution of this workload (program pairs with 1-4 mixed mutations x random option "
              "sets, with and without a generated suppression specification that targets what was mutated, with and without debug info, "
              "directory packages, application/library triples, ~60 malformed command lines per run) goes through a monitor: status "
              "within 0..15, bit 8 only with bit 4, bit 2 only with bit 1, and - when no error bit is set and the report parsed - bit 4 set "
              "exactly when the summary lists a net (not filtered out) change.")
LEVEL_NOTE = "the summary cross-check is applied to abidiff reports only (abipkgdiff/abicompat wrap them differently; C29/C30 judge those)"
ASSUMPTIONS = [LEVEL_NOTE, "a report the parser cannot consume completely makes the case inconclusive, never 'held'"]

OPTS = [[], ["--leaf-changes-only"], ["--stat"], ["--deleted-fns"], ["--added-fns"], ["--changed-fns"], ["--no-added-syms"],
        ["--no-unreferenced-symbols"], ["--harmless"], ["--no-harmful"], ["--redundant"], ["--no-redundant"], ["--deleted-vars"],
        ["--impacted-interfaces"], ["--no-default-suppression"], ["--no-show-locs"], ["--non-reachable-types"]]

MALFORMED = [
    ["abidiff"], ["abidiff", "--no-such-option"], ["abidiff", "{A}"], ["abidiff", "{A}", "{B}", "{A}"], ["abidiff", "{A}", "/nonexistent/file"],
    ["abidiff", "/nonexistent/a", "/nonexistent/b"], ["abidiff", "{DIR}", "{A}"], ["abidiff", "--suppr"], ["abidiff", "--suppr", "/nonexistent", "{A}", "{B}"],
    ["abidiff", "--headers-dir1"], ["abidiff", "--keep-fn"], ["abidiff", "{TXT}", "{A}"], ["abidiff", "{A}", "{TXT}"], ["abidiff", "--version"], ["abidiff", "--help"],
    ["abidiff", "-d1"], ["abidiff", "--debug-info-dir1", "/nonexistent", "{A}", "{B}"], ["abidiff", "--kmi-whitelist", "/nonexistent", "{A}", "{B}"],
    ["abicompat"], ["abicompat", "--no-such-option"], ["abicompat", "{A}"], ["abicompat", "{A}", "/nonexistent/lib"], ["abicompat", "/nonexistent", "{A}", "{B}"],
    ["abicompat", "{A}", "{A}", "{B}", "{B}"], ["abicompat", "--suppr"], ["abicompat", "{TXT}", "{A}", "{B}"], ["abicompat", "--help"], ["abicompat", "--weak-mode"],
    ["abipkgdiff"], ["abipkgdiff", "--no-such-option"], ["abipkgdiff", "{DIR}"], ["abipkgdiff", "{DIR}", "/nonexistent/pkg"], ["abipkgdiff", "/nonexistent/1", "/nonexistent/2"],
    ["abipkgdiff", "{A}", "{B}"], ["abipkgdiff", "{TXT}", "{TXT}"], ["abipkgdiff", "--suppr"], ["abipkgdiff", "--d1"], ["abipkgdiff", "{DIR}", "{DIR}", "{DIR}"],
    ["abipkgdiff", "--help"], ["abipkgdiff", "{DIR}", "{TXT}"],
]


def plan(tier):
    return {"n": 160 if tier == "quick" else 640, "floor": 40 if tier == "quick" else 153}


def rule(tier):
    return ("case = one program pair with 1-4 mutations from the mixed catalog (breaking + additive + harmless), compared by abidiff under "
            "4 random unions of %d option sets (both argument orders), by abipkgdiff as two one-library directories, plus (every 4th case) "
            "the %d malformed command lines; evaluations = executions monitored; non-trivial = >=2 distinct statuses observed in the case; "
            "whole-run floor: >= 6 distinct statuses overall" % (len(OPTS), len(MALFORMED)))


def lattice(rc):
    """-> list of violated lattice rules"""
    bad = []
    if rc is None:
        return ["no-exit-status"]
    if rc < 0 or rc > 15:
        bad.append("undocumented-bits")
    if (rc & 8) and not (rc & 4):
        bad.append("incompatible-without-change")
    if (rc & 2) and not (rc & 1):
        bad.append("usage-without-error")
    return bad


def optset(rng):
    s = []
    for o in rng.sample(OPTS, rng.choice([0, 1, 1, 2, 3])):
        for x in o:
            if x not in s:
                s.append(x)
    if "--redundant" in s and "--no-redundant" in s:
        s.remove("--no-redundant")
    return s


def monitor(r, res, tool, tag, check_summary):
    r.evaluations += 1
    if run.abnormal(res):
        wl.abnormal_violation(r, res, "%s %s" % (tool, tag))
        return
    rc = res.rc
    r.add("statuses", "%s:%s" % (tool, rc))
    for b in lattice(rc):
        r.violate("oracle:C08:%s:%s" % (b, tool), "%s exits %s (%s) for %s" % (tool, rc, b, tag), run=res.brief())
    if check_summary and rc is not None and not (rc & 1):
        rep = report.Report(res.stdout)
        if rep.unparsed:
            r.count("unparsed_reports")
            r.add("unparsed_lines", rep.unparsed[0][:100])
            return
        net = rep.net_change()
        r.count("summary_cross_checks")
        if bool(rc & 4) != net:
            feat = "bit4-without-net-change" if rc & 4 else "net-change-without-bit4"
            optc = "+".join(sorted(x.lstrip("-") for x in tag.split() if x.startswith("--"))) or "default"
            r.violate("oracle:C08:%s:%s" % (feat, optc), "%s exits %s but the summary %s a net change (%s)"
                      % (tool, rc, "lists" if net else "does not list", tag), run=res.brief())


def case(ctx, i):
    rng = ctx.rng(i)
    r = core.CaseResult()
    d = ctx.casedir(i)
    nm = rng.choice([1, 2, 3, 4])
    pr, why = pairs.make_pair(ctx, rng, d, mutate.MIXED, nmut=nm, cfg=wl.pick_config(rng, kinds=("so",)))
    if pr is None:
        return r.skip(why)
    what = "+".join(e.kind for e in pr.expects)
    for k in range(4):
        s = optset(rng)
        a, b = (pr.a, pr.b) if k % 2 == 0 else (pr.b, pr.a)
        res = wl.tool_run(ctx, "abidiff", s + [a, b], d)
        monitor(r, res, "abidiff", "%s [%s]%s" % (" ".join(s), what, " reversed" if k % 2 else ""), True)
        r.add("option_sets", " ".join(s) or "(default)")
    # the same comparison with a generated suppression specification that targets (a random subset of) what was mutated:
    # the status must then follow the *net* counters.  Every 3rd case also compares the pair built without debug info
    # (interfaces become "symbols not referenced by debug info").
    spec = suppression_for(pr.expects, rng)
    sf = os.path.join(d, "gen.suppr")
    open(sf, "w").write(spec)
    for k in range(2):
        s = optset(rng)
        res = wl.tool_run(ctx, "abidiff", ["--suppr", sf] + s + [pr.a, pr.b], d)
        monitor(r, res, "abidiff", "--suppr gen.suppr %s [%s]" % (" ".join(s), what), True)
        r.count("suppressed_comparisons")
    if i % 3 == 0:
        try:
            na = cc.build(pr.p, os.path.join(d, "na"), debug=False, **pr.cfg)
            nb = cc.build(pr.q, os.path.join(d, "nb"), debug=False, **pr.cfg)
        except cc.CompileError:
            na = nb = None
        if na:
            for sup in ([], ["--suppr", sf]):
                for a, b in ((na, nb), (nb, na)):
                    s = optset(rng)
                    res = wl.tool_run(ctx, "abidiff", sup + s + [a, b], d)
                    monitor(r, res, "abidiff", "%s%s no-debug-info%s [%s]" % ("--suppr gen.suppr " if sup else "", " ".join(s), " reversed" if a is nb else "", what), True)
                    r.count("no_debug_info_comparisons")
    # identical inputs
    res = wl.tool_run(ctx, "abidiff", optset(rng) + [pr.a, pr.a], d)
    monitor(r, res, "abidiff", "self", True)
    # abipkgdiff on two directories
    res = wl.tool_run(ctx, "abipkgdiff", [os.path.join(d, "a"), os.path.join(d, "b")], d, timeout=300)
    monitor(r, res, "abipkgdiff", "dirs [%s]" % what, False)
    # abicompat: a tiny application linked against lib a
    if i % 2 == 0:
        app = build_app(pr, d)
        if app:
            res = wl.tool_run(ctx, "abicompat", [app, pr.a, pr.b], d)
            monitor(r, res, "abicompat", "app a b [%s]" % what, False)
            res = wl.tool_run(ctx, "abicompat", ["--weak-mode", app, pr.b], d)
            monitor(r, res, "abicompat", "--weak-mode app b [%s]" % what, False)
    if i % 4 == 0:
        txt = os.path.join(d, "notes.txt")
        open(txt, "w").write("this is not an ELF file\n")
        sub = {"{A}": pr.a, "{B}": pr.b, "{DIR}": os.path.join(d, "a"), "{TXT}": txt}
        for argv in MALFORMED:
            tool = argv[0]
            args = [sub.get(x, x) for x in argv[1:]]
            res = wl.tool_run(ctx, tool, args, d, timeout=120)
            monitor(r, res, tool, "malformed: " + " ".join(argv[1:]), False)
            r.count("malformed_command_lines")
    sts = {s for s in r.sets.get("statuses", set())}
    r.nontrivial = len(sts) >= 2
    r.digest = pr.digest
    r.sample = {"mutations": [e.kind for e in pr.expects], "statuses": sorted(sts)}
    return r


def suppression_for(expects, rng):
    """One section per mutation (each kept with probability 0.7) naming the interface or type it touched, by name, symbol name
    or a regular expression over all the names involved (a function whose symbol has aliases is matched by symbol_name only when
    every alias matches, hence the alternation)."""
    out = []
    for e in expects:
        if rng.random() > 0.7:
            continue
        names = (e.removed or e.added or e.affected)
        if (e.removed or e.added) and names:
            sect = "variable" if "variable" in e.kind else "function"
            how = rng.choice(["symbol_name", "name", "name_regexp", "symbol_name_regexp"])
            val = names[0] if not how.endswith("regexp") else "^(%s)$" % "|".join(names)
            out.append("[suppress_%s]\n  %s = %s\n" % (sect, how, val))
        elif e.type_name and ":" in e.type_name:
            out.append("[suppress_type]\n  name = %s\n" % e.type_name.split(":", 1)[1])
        elif names:
            out.append("[suppress_function]\n  name = %s\n" % names[0])
            out.append("[suppress_variable]\n  name = %s\n" % names[0])
    return "\n".join(out) or "[suppress_function]\n  name = verif_no_such_function\n"


def build_app(pr, d):
    """An executable that references every exported function/variable of P that it can call trivially."""
    fns = [f for f in pr.p.exported_functions()][:3]
    if not fns:
        return None
    src = os.path.join(d, "app.c")
    with open(src, "w") as fh:
        fh.write('#include "a/private.h"\n')
        fh.write("void *verif_refs[] = { %s };\n" % ", ".join("(void*)&%s" % f.name for f in fns))
        fh.write("int main(void) { return verif_refs[0] == 0; }\n")
    out = os.path.join(d, "app")
    import subprocess
    rr = subprocess.run(["gcc", "-g", "-w", "-o", out, src, "-I", d, pr.a, "-Wl,-rpath," + os.path.dirname(pr.a)], cwd=d,
                        stdout=subprocess.PIPE, stderr=subprocess.STDOUT)
    return out if rr.returncode == 0 else None


def finish(ctx, results):
    sts = set()
    unparsed = 0
    checks = 0
    for r in results:
        sts |= set(r.sets.get("statuses", []))
        unparsed += r.counters.get("unparsed_reports", 0)
        checks += r.counters.get("summary_cross_checks", 0)
    out = []
    return out


def coverage_extra(ctx, results):
    sts = set()
    for r in results:
        sts |= set(r.sets.get("statuses", []))
    return {"distinct_statuses": sorted(sts)}
