"""C24 - type suppressions never hide changes that violate their constraints."""
import os
from .. import core, wl, run, mutate, pairs, report, layout, cc, progen

PROP = "C24"
LEVEL = "exploration"
FLAVORS = ["plain"]
ENGINE = "cli-oracle"
TECHNIQUE = "model-based runtime oracle (safety direction only): a [suppress_type] section whose constraints the changed struct violates by construction must leave the change reported"
LEVEL_TEXT = ("one struct reachable from the interface is changed (member inserted / appended / removed / retyped) and the pair is compared "
              "with a generated [suppress_type] section that names that struct but carries a constraint the change violates by "
              "construction: another name or a non-matching name_regexp, an invalid regular expression, a type_kind other than struct, "
              "source_location_not_in naming the header that defines the struct, accessed_through = reference (C has none), a "
              "has_data_member_inserted_* constraint combined with a removal, or an insertion range that excludes the inserted member's "
              "offset as measured by a compiler probe, or a section naming another struct that changed as well (one the changed struct "
              "points to), or 'inserted at end' while the member lands at or before the old last member.  The change must still be reported (bit 4, struct named).  Cases where the "
              "model says 'may be suppressed' are not judged.")
LEVEL_NOTE = "only the 'must still be reported' direction is judged; insertion offsets come from the compiler probe, not from this framework's arithmetic"
ASSUMPTIONS = [LEVEL_NOTE]

# rejected by regcomp(REG_EXTENDED) *and* free of INI syntax characters ([ ] { } , ; # = backslash), so that the
# pattern reaches the regular expression engine unchanged
INVALID_RE = ["(", "a(b", "*x", "+", "a|*", "(?", "(()", "^*", "(*)", "x(y"]
CLASSES = ["wrong-name", "wrong-regexp", "invalid-regexp", "wrong-kind", "location-excluded", "accessed-through-reference",
           "insertion-constraint-vs-removal", "insertion-outside-range", "insertion-at-wrong-offset", "insertion-not-at-end", "names-another-changed-struct"]


def plan(tier):
    return {"n": 300 if tier == "quick" else 1200, "floor": 70 if tier == "quick" else 300}


def rule(tier):
    return ("case = one pair (one struct mutation) x one generated [suppress_type] section of one of %d violated-constraint classes; "
            "evaluations = suppressed comparisons judged; non-trivial = baseline (no suppression) reports the struct change; distinct by "
            "digest of sources + section" % len(CLASSES))


def pointed_to_structs(rec):
    near = set()
    for f in rec.fields:
        t = f.type
        while isinstance(t, (progen.Pointer, progen.Typedef, progen.Qualified, progen.Array)):
            t = t.elem if isinstance(t, progen.Array) else t.to
        if isinstance(t, progen.Record) and t.name and t.name != rec.name and not t.opaque and t.kind == "struct" \
                and isinstance(f.type, progen.Pointer):
            near.add(t.name)
    return near


class _Pair(object):
    pass


def make_near_pair(ctx, rng, d, kinds):
    """P -> Q with two mutations: one on a struct S (kinds), one on a struct T that S has a pointer member to."""
    for attempt in range(40):
        p = progen.generate(rng, wl.gen_opts(rng, ctx.tier, ntypes=rng.randint(8, 16)))
        cands = {}
        for t in p.types:
            if isinstance(t, progen.Record) and t.kind == "struct" and t.name and not t.opaque and p.users_of(t):
                n = pointed_to_structs(t)
                if n:
                    cands[t.name] = n
        if not cands:
            continue
        q1 = e = None
        for k in range(60):
            res = mutate.apply_random(mutate.BREAKING, p, rng, kinds)
            if res and res[1].type_name.split(":", 1)[1] in cands and not res[1].nested:
                q1, e = res
                break
        if q1 is None:
            continue
        near = cands[e.type_name.split(":", 1)[1]]
        for k in range(80):
            res = mutate.apply_random(mutate.BREAKING, q1, rng, ["insert-member", "append-member", "remove-member", "change-member-type"])
            if res and res[1].type_name.split(":", 1)[1] in near:
                pr = _Pair()
                pr.p, pr.q, pr.expects = p, res[0], [e]
                pr.cfg = wl.pick_config(rng, kinds=("so", "so", "exec"))
                try:
                    pr.a = cc.build(pr.p, os.path.join(d, "a"), **pr.cfg)
                    pr.b = cc.build(pr.q, os.path.join(d, "b"), **pr.cfg)
                except cc.CompileError:
                    return None, "compile-error", None
                pr.digest = core.digest(progen.source_digest(progen.render(pr.p)), progen.source_digest(progen.render(pr.q)), pr.cfg)
                return pr, None, res[1].type_name.split(":", 1)[1]
    return None, "no-struct-pointing-to-another-changed-struct", None


def case(ctx, i):
    rng = ctx.rng(i)
    r = core.CaseResult()
    d = ctx.casedir(i)
    cls = CLASSES[i % len(CLASSES)]
    if cls == "insertion-constraint-vs-removal":
        kinds = ["remove-member"]
    elif cls in ("insertion-outside-range", "insertion-at-wrong-offset"):
        kinds = ["insert-member", "append-member"]
    elif cls == "insertion-not-at-end":
        kinds = ["insert-member"]
    elif cls == "names-another-changed-struct":
        kinds = ["append-member", "append-member", "append-member", "insert-member", "remove-member"]
    else:
        kinds = ["insert-member", "append-member", "remove-member", "change-member-type"]
    tname = None
    if cls == "names-another-changed-struct":
        pr, why, tname = make_near_pair(ctx, rng, d, kinds)
    else:
        pr, why = pairs.make_pair(ctx, rng, d, mutate.BREAKING, kinds=kinds, cfg=wl.pick_config(rng, kinds=("so", "so", "exec")))
    if pr is None:
        return r.skip(why)
    e = pr.expects[0]
    sname = e.type_name.split(":", 1)[1]
    rec = pr.p.find_type(sname)
    if rec is None or rec.kind != "struct":
        return r.skip("not-a-struct")
    # names of types from which the changed struct can be reached: a section matching one of those hides the sub-tree
    # holding the change *legitimately*; "non matching" sections must match none of them
    reaching = set()
    for prog_ in (pr.p, pr.q):
        for t in prog_.types:
            nm = getattr(t, "name", None)
            if nm and nm != sname and any(getattr(x, "name", None) == sname for x in prog_.reach(t)):
                reaching.add(nm)
    lines = ["[suppress_type]"]
    if cls == "names-another-changed-struct":
        # a second struct T, which the changed struct S points to, changes too; the section names T only: S's own change
        # (a member of S inserted / removed) is not a change of T and must stay reported
        lines.append("  name = %s" % tname)
    elif cls == "wrong-name":
        other = [t.name for t in pr.p.types if isinstance(t, progen.Record) and t.name and t.name != sname and t.name not in reaching]
        lines.append("  name = %s" % (rng.choice(other) if other and rng.random() < 0.5 else sname + "x"))
    elif cls == "wrong-regexp":
        import re as _re
        pats = ["^%sx$" % sname, "^x%s" % sname, "^%s$" % sname[:-1], "^$", "^u_nomatch_.*"]
        pats = [x for x in pats if not any(_re.search(x, nm) for nm in reaching | {sname})]
        lines.append("  name_regexp = %s" % rng.choice(pats))
    elif cls == "invalid-regexp":
        lines.append("  name_regexp = %s" % rng.choice(INVALID_RE))
    elif cls == "wrong-kind":
        lines.append("  name = %s" % sname)
        lines.append("  type_kind = %s" % rng.choice(["union", "enum", "typedef", "array"]))
    elif cls == "location-excluded":
        lines.append("  name = %s" % sname)
        hdr = "public.h" if getattr(rec, "where", "public") == "public" else "private.h"
        lines.append("  source_location_not_in = %s" % hdr)
    elif cls == "accessed-through-reference":
        lines.append("  name = %s" % sname)
        lines.append("  accessed_through = reference")
    elif cls == "insertion-constraint-vs-removal":
        lines.append("  name = %s" % sname)
        lines.append("  " + rng.choice(["has_data_member_inserted_at = end", "has_data_member_inserted_between = {0, end}",
                                        "has_data_members_inserted_between = {{0, 64}, {64, end}}", "has_data_member_inserted_at = 0"]))
    else:
        try:
            lb = layout.run_probe(pr.q, os.path.join(d, "b"), pr.cfg["family"], pr.cfg["opt"])
        except cc.CompileError:
            return r.skip("probe-failed")
        off = lb.off.get((e.type_name, e.entity))
        if off is None:
            return r.skip("inserted-member-is-nested")    # inserted inside an anonymous member: offsets are relative, not judged
        lines.append("  name = %s" % sname)
        if cls == "insertion-not-at-end":
            # "at the end" = beyond the last data member of the *old* struct; an insertion at or before that offset is not
            try:
                la = layout.run_probe(pr.p, os.path.join(d, "a"), pr.cfg["family"], pr.cfg["opt"])
            except cc.CompileError:
                return r.skip("probe-failed")
            last = rec.fields[-1] if rec.fields else None
            off_last = la.off.get((e.type_name, last.name)) if last is not None and last.name else None
            if off_last is None or off > off_last:
                return r.skip("insertion-is-beyond-the-old-last-member")
            lines.append("  " + rng.choice(["has_data_member_inserted_at = end", "has_data_member_inserted_between = {end, end}"]))
        elif cls == "insertion-outside-range":
            if off >= 16 and rng.random() < 0.5:
                lines.append("  has_data_member_inserted_between = {0, %d}" % (off - 8))
            else:
                lines.append("  has_data_member_inserted_between = {%d, %d}" % (off + 64, off + 640))
        else:
            lines.append("  has_data_member_inserted_at = %d" % (off + rng.choice([8, 16, 64, 1])))
    text = "\n".join(lines) + "\n"
    f = os.path.join(d, "t.suppr")
    open(f, "w").write(text)
    what = "%s on %s; section class %s; %s" % (e.kind, sname, cls, wl.describe_cfg(pr.cfg))
    base = wl.tool_run(ctx, "abidiff", [pr.a, pr.b], d)
    if run.abnormal(base):
        wl.abnormal_violation(r, base, "abidiff [%s]" % what)
        return r
    if not (base.rc and base.rc & 4) or sname not in base.stdout:
        return r.skip("baseline-does-not-report-the-struct")
    supp = wl.tool_run(ctx, "abidiff", ["--suppr", f, pr.a, pr.b], d)
    r.evaluations += 1
    r.add("classes", cls)
    if run.abnormal(supp):
        wl.abnormal_violation(r, supp, "abidiff --suppr [%s]" % what)
        return r
    if not (supp.rc and supp.rc & 4) or sname not in supp.stdout:
        r.violate("oracle:C24:over-suppressed:%s:%s%s" % (cls, e.kind, ":inside-anonymous-member" if e.nested else ""),
                  "a [suppress_type] section whose constraints the change violates hid it: status %s -> %s (%s)" % (base.rc, supp.rc, what),
                  suppression=text, base=base.brief(), with_suppr=supp.brief())
    r.nontrivial = True
    r.digest = core.digest(pr.digest, text)
    r.sample = {"mutation": e.to_json(), "class": cls, "suppression": text, "baseline_status": base.rc, "suppressed_status": supp.rc}
    return r
