"""C31 - parallel package comparison equals sequential comparison; no races."""
import os
import re
from .. import core, wl, run, pkggen

PROP = "C31"
LEVEL = "exploration"
FLAVORS = ["plain", "tsan"]
ENGINE = "concurrency"
TECHNIQUE = "differential runtime oracle (abipkgdiff with 1..16 workers under seeded schedule perturbation vs --no-parallel) + ThreadSanitizer on the same workload + event log of task completion orders"
LEVEL_TEXT = ("package pairs of 12-24 generated libraries (directory and tar form; the tar form adds the parallel extraction tasks) are "
              "compared sequentially (--no-parallel) and then with ABG_VERIF_NUM_THREADS in {1,2,3,5,8,16} while the hook points of the "
              "worker queue inject yields and sleeps chosen by a seed; report and exit status must be identical.  The same workload runs "
              "on the ThreadSanitizer build; reports are de-duplicated by stack pair, and reports whose stacks never enter libabigail "
              "or the tool (uninstrumented libxml2 / elfutils internals) are listed separately.  The event log yields the task-completion "
              "orders actually observed.")
LEVEL_NOTE = "TSan cannot see synchronisation inside uninstrumented libxml2/elfutils; races reported entirely inside them are not counted against libabigail"
ASSUMPTIONS = [LEVEL_NOTE]

WORKERS = [1, 2, 3, 5, 8, 16]


def plan(tier):
    return {"n": 10 if tier == "quick" else 24, "floor": 10 if tier == "quick" else 20, "samples": 3}


def rule(tier):
    return ("case = one package pair (12-24 libraries, every second as tar) x %d worker counts x %d perturbation seeds on the plain build "
            "(differential) + 2 runs on the TSan build; evaluations = runs compared with the sequential reference + TSan runs; "
            "distinct_nontrivial = number of distinct task-completion orders observed in the event logs"
            % (len(WORKERS), 2 if tier == "quick" else 3))


def completion_order(path):
    order = []
    try:
        for l in open(path):
            w = l.split()
            if len(w) == 6 and w[0] == "E" and w[3] == "6":
                order.append(w[5])
    except OSError:
        pass
    # rename task pointers by order of first appearance at point 5 is not available here: use rank of pointer value
    rank = {p: k for k, p in enumerate(sorted(set(order)))}
    return tuple(rank[p] for p in order)


def tsan_reports(stderr):
    out = []
    for m in re.finditer(r"WARNING: ThreadSanitizer: ([^\n(]+)\(pid=\d+\)(.*?)(?=\n==================|\Z)", stderr, re.S):
        kind, body = m.group(1).strip(), m.group(2)
        fns = [run._clean_fn(f) for f, _loc in run.frames(body)]
        ab = [f for f in fns if "abigail" in f or f in ("main",) or "pkg" in f.lower() or "compare" in f.lower()]
        out.append((kind, ab[:3], body))
    return out


def case(ctx, i):
    rng = ctx.rng(i)
    r = core.CaseResult()
    d = ctx.casedir(i)
    tar = (i % 2 == 1)
    try:
        p1, p2, model = pkggen.make_packages(ctx, rng, d, rng.randint(12, 24), tar=tar)
    except Exception as ex:
        return r.skip("package-build-failed:" + str(ex)[:100])
    what = "%s packages, %d binaries" % ("tar" if tar else "directory", len(model))
    ref = wl.tool_run(ctx, "abipkgdiff", ["--no-parallel", p1, p2], d, flavor="plain", timeout=900)
    if run.abnormal(ref):
        wl.abnormal_violation(r, ref, "abipkgdiff --no-parallel [%s]" % what)
        return r
    nseeds = 2 if ctx.tier == "quick" else 3
    orders = set()
    for w in WORKERS:
        for s in range(nseeds):
            seed = ctx.seed * 1000 + i * 100 + w * 10 + s
            log = os.path.join(d, "events-%d-%d.log" % (w, s))
            res = wl.tool_run(ctx, "abipkgdiff-sched", [p1, p2], d, flavor="plain", timeout=900,
                              env={"ABG_VERIF_NUM_THREADS": str(w), "VERIF_SCHED_SEED": str(seed), "VERIF_EVENT_LOG": log})
            r.evaluations += 1
            if run.abnormal(res):
                wl.abnormal_violation(r, res, "abipkgdiff with %d workers [%s]" % (w, what))
                continue
            o = completion_order(log)
            if len(o) >= 2:
                orders.add(o)
                r.add("completion_orders", core.digest(o))
            if os.path.exists(log):
                os.unlink(log)
            if res.rc != ref.rc or res.out != ref.out:
                r.violate("oracle:C31:parallel-differs-from-sequential",
                          "abipkgdiff with %d workers (perturbation seed %d) differs from --no-parallel: status %s vs %s, report %d vs %d bytes [%s]"
                          % (w, seed, res.rc, ref.rc, len(res.out), len(ref.out), what), workers=w, seed=seed,
                          first_diff=first_diff(ref.stdout, res.stdout))
    # ThreadSanitizer on the same packages
    for s, w in ((0, 8), (1, 16)):
        seed = ctx.seed * 1000 + i * 100 + 90 + s
        res = wl.tool_run(ctx, "abipkgdiff-sched", [p1, p2], d, flavor="tsan", timeout=1800,
                          env={"ABG_VERIF_NUM_THREADS": str(w), "VERIF_SCHED_SEED": str(seed),
                               "TSAN_OPTIONS": "halt_on_error=0:exitcode=0:report_signal_unsafe=0:history_size=4"})
        r.evaluations += 1
        r.count("tsan_runs")
        if res.timeout:
            r.count("tsan_timeouts")
            continue
        seen = set()
        for kind, ab, body in tsan_reports(res.stderr):
            if not ab:
                r.count("tsan_reports_inside_uninstrumented_libraries")
                r.add("library_internal_reports", kind)
                continue
            key = "san:tsan:%s:%s" % (kind.replace(" ", "-"), "|".join(ab[:2]))
            if key not in seen:
                seen.add(key)
                r.violate(key, "ThreadSanitizer: %s involving %s [%s]" % (kind, ab, what), report=body[:2500], workers=w, seed=seed)
        if res.rc != ref.rc or res.out != ref.out:
            if not run.abnormal(res):
                r.violate("oracle:C31:parallel-differs-from-sequential", "TSan build with %d workers differs from --no-parallel [%s]" % (w, what))
    r.nontrivial = len(orders) >= 1
    r.digest = core.digest([(m["name"], m["status"]) for m in model], tar)
    r.add("forms", "tar" if tar else "dir")
    r.sample = {"form": "tar" if tar else "dir", "binaries": len(model), "reference_status": ref.rc, "distinct_completion_orders": len(orders)}
    return r


def first_diff(a, b):
    la, lb = a.split("\n"), b.split("\n")
    for k in range(min(len(la), len(lb))):
        if la[k] != lb[k]:
            return "line %d: %r vs %r" % (k + 1, la[k][:120], lb[k][:120])
    return "length %d vs %d lines" % (len(la), len(lb))


def count_nontrivial(results):
    s = set()
    for r in results:
        s |= set(r.sets.get("completion_orders", []))
    return len(s)
