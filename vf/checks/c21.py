"""C21 - equality, hashing and diffing agree on the IR (harness ir_relations)."""
import re
from .. import core, wl, run, mutate, pairs

PROP = "C21"
LEVEL = "exploration"
FLAVORS = ["plain", "asan"]
ENGINE = "api-harness"
TECHNIQUE = "runtime relations checked through the public API on (P, M(P)) loaded in one environment: symmetry of ==, equal => equal hashes, corpus diff lists a function as changed iff it is unequal, compute_diff(a,b)->has_changes() iff a != b; all pairs of types inside one corpus"
LEVEL_TEXT = ("harness ir_relations loads P and a mutated copy in one environment (DWARF reader) and evaluates, for every same-id pair of "
              "functions / variables and every same-name pair of types: a==b <=> b==a; a==b => hash(a)==hash(b); the corpus diff lists "
              "the function as changed exactly when it is unequal; compute_diff(a,b)->has_changes() <=> a!=b; plus all pairs of types inside one corpus (capped at 150x150) for symmetry, hash "
              "and canonical-type consistency.  Every eighth case runs on the ASan+UBSan build.")
LEVEL_NOTE = "types are paired by internal pretty representation"
ASSUMPTIONS = [LEVEL_NOTE]


def plan(tier):
    return {"n": 100 if tier == "quick" else 400, "floor": 30 if tier == "quick" else 100}


def rule(tier):
    return ("case = (P, M(P)) with 1-3 mixed mutations x one configuration; evaluations = relation instances evaluated by the harness; "
            "non-trivial = the case has at least one equal and one unequal pair; distinct by digest of both sources")


def case(ctx, i):
    rng = ctx.rng(i)
    r = core.CaseResult()
    d = ctx.casedir(i)
    cat = dict(mutate.MIXED)
    cat.update(mutate.EXTRA)       # + anonymous members becoming named and back (layout preserving)
    pr, why = pairs.make_pair(ctx, rng, d, cat, nmut=rng.randint(1, 3))
    if pr is None:
        return r.skip(why)
    flavor = "asan" if i % 8 == 0 else "plain"
    res = wl.tool_run(ctx, "ir_relations", [pr.a, pr.b], d, flavor=flavor, timeout=600)
    what = "+".join(e.kind for e in pr.expects) + " " + wl.describe_cfg(pr.cfg)
    if run.abnormal(res):
        wl.abnormal_violation(r, res, "ir_relations [%s]" % what)
        return r
    if "NOCORPUS" in res.stdout or res.rc != 0:
        return r.skip("no-corpus")
    m = re.search(r"SUMMARY evals=(\d+) nontrivial=(\d+) pairs_equal=(\d+) pairs_unequal=(\d+)", res.stdout)
    r.evaluations = int(m.group(1))
    r.count("equal_pairs", int(m.group(3)))
    r.count("unequal_pairs", int(m.group(4)))
    for line in res.stdout.splitlines():
        if line.startswith("V "):
            mm = re.match(r"V (\S+) count=(\d+) witness=(.*)", line)
            r.violate("oracle:C21:" + mm.group(1), "%s on %s instances, e.g. %s [%s]" % (mm.group(1), mm.group(2), mm.group(3)[:200], what))
    r.nontrivial = int(m.group(3)) > 0 and int(m.group(4)) > 0
    r.digest = pr.digest
    r.sample = {"mutations": [e.kind for e in pr.expects], "relations": r.evaluations, "equal_pairs": int(m.group(3)), "unequal_pairs": int(m.group(4))}
    return r
