"""C03 - re-serializing ABIXML (abilint) is a byte-exact fixpoint."""
import os
from .. import core, progen, cc, wl, run
from . import c02

PROP = "C03"
LEVEL = "exploration"
FLAVORS = ["plain"]
ENGINE = "cli-oracle"
TECHNIQUE = "runtime oracle: byte comparison of abilint output with its abidw input, and abilint --diff status, over generated documents x writer options"
LEVEL_TEXT = ("documents produced by abidw for generated programs (sampled writer options) are passed through abilint; the output must "
              "equal the input byte for byte, and abilint --diff must exit 0.  Held = no difference on the documents explored.")
LEVEL_NOTE = "abilint is given the same presentation options as abidw only where the option changes the serialization (--annotate, --no-show-locs ... are properties of the document, re-emitted by abilint from what it read)"
ASSUMPTIONS = ["documents come from abidw on generator output only", "HOME is an empty directory"]

# writer options that abilint can reproduce without being told (they only drop or keep what is in the document)
WOPTS = ["--no-show-locs", "--no-parameter-names", "--no-corpus-path", "--load-all-types", "--no-comp-dir-path"]


def plan(tier):
    return {"n": 150 if tier == "quick" else 600, "floor": 30 if tier == "quick" else 120}


def rule(tier):
    return ("case = one generated program x build configuration x 2 documents (default options; random subset of %s); each document: "
            "cmp(abilint D, D) and abilint --diff D; evaluations = documents judged; non-trivial = document has >= 20 type definitions"
            % WOPTS)


def case(ctx, i):
    rng = ctx.rng(i)
    r = core.CaseResult()
    d = ctx.casedir(i)
    prog, cfg, binp = c02.make_binary(ctx, i, rng, r, d)
    if prog is None:
        return r
    sets = [[], [o for o in WOPTS if rng.random() < 0.4]]
    ntypes = 0
    for k, s in enumerate(sets):
        xml = os.path.join(d, "lib%d.abi" % k)
        w = wl.abidw(ctx, binp, xml, s)
        if run.abnormal(w) or w.rc != 0:
            return r.skip("abidw-failed")   # C02's business
        doc = open(xml, "rb").read()
        ntypes = max(ntypes, doc.count(b" id='type-id-"))
        res = wl.tool_run(ctx, "abilint", [xml], d)
        r.evaluations += 1
        if run.abnormal(res):
            wl.abnormal_violation(r, res, "abilint on abidw output")
            continue
        if res.rc != 0:
            r.violate("oracle:C03:abilint-exit", "abilint exits %s on a document produced by abidw %s" % (res.rc, " ".join(s)), run=res.brief())
            continue
        if res.out != doc:
            r.violate("oracle:C03:bytes-differ:" + first_diff_feature(doc, res.out),
                      "abilint output differs from its input (abidw %s, %s): %s" % (" ".join(s), wl.describe_cfg(cfg), first_diff(doc, res.out)),
                      writer_options=s)
        # abilint --diff must exit 0 on a fixpoint; when the bytes differ (reported above under its own key) a
        # non-zero status is merely the same finding seen through another door, so only *disagreement* between
        # the byte comparison and the status is reported here.
        res2 = wl.tool_run(ctx, "abilint", ["--diff", xml], d)
        if run.abnormal(res2):
            wl.abnormal_violation(r, res2, "abilint --diff")
        elif (res2.rc != 0) != (res.out != doc):
            r.violate("oracle:C03:abilint--diff-disagrees-with-bytes", "abilint --diff exits %s although the re-emitted document %s its input (abidw %s)"
                      % (res2.rc, "equals" if res.out == doc else "differs from", " ".join(s)), run=res2.brief())
    r.nontrivial = ntypes >= 20
    r.digest = core.digest(progen.source_digest(progen.render(prog)), cfg)
    r.add("configs", wl.describe_cfg(cfg))
    r.sample = {"config": wl.describe_cfg(cfg), "type_definitions": ntypes, "writer_option_sets": [" ".join(s) for s in sets]}
    return r


def first_diff(a, b):
    la, lb = a.split(b"\n"), b.split(b"\n")
    for k in range(min(len(la), len(lb))):
        if la[k] != lb[k]:
            return "line %d: %r vs %r" % (k + 1, la[k][:160], lb[k][:160])
    return "length %d vs %d lines" % (len(la), len(lb))


def drop_declonly_children(lines):
    """abidw emits a declaration-only class together with the member functions it saw defined; model of the reader
    dropping them: the element becomes an empty one."""
    import re
    out, k = [], 0
    while k < len(lines):
        l = lines[k]
        m = re.match(rb"^(\s*)<(class-decl|union-decl) [^>]*is-declaration-only='yes'[^>]*[^/]>$", l)
        if m:
            end = m.group(1) + b"</" + m.group(2) + b">"
            j = k + 1
            while j < len(lines) and lines[j] != end:
                j += 1
            out.append(l[:-1] + b"/>")
            k = j + 1
            continue
        out.append(l)
        k += 1
    return out


def first_diff_feature(a, b):
    """Classify the difference between the abidw document `a` and abilint's output `b` (stable key material).
    Layers are peeled off in order, so that a document exhibiting a known class and something else gets the key
    of the something else."""
    import re
    import collections
    la, lb = a.split(b"\n"), b.split(b"\n")

    def norm(lines):
        return [re.sub(rb"type-id-\d+", b"type-id-N", l) for l in lines if b"<type-decl name='void'" not in l]

    def drop_empty_instr(lines):
        out, k = [], 0
        while k < len(lines):
            if lines[k].startswith(b"  <abi-instr ") and k + 1 < len(lines) and lines[k + 1] == b"  </abi-instr>":
                k += 2
                continue
            out.append(lines[k])
            k += 1
        return out

    def elem(line):
        m = re.match(rb"\s*<\/?([\w-]+)", line)
        return m.group(1).decode() if m else "text"

    # 0. defect of the *input*: abidw emitted the same anonymous data member twice in one class
    if dup_anonymous_member(la):
        return "input-has-duplicate-anonymous-data-member"
    na, nb = norm(la), norm(lb)
    if na == nb:
        return "void-type-decl-position"
    na2, nb2 = drop_empty_instr(na), drop_empty_instr(nb)
    if na2 == nb2:
        return "empty-abi-instr-dropped"
    na3 = drop_declonly_children(na2)
    if na3 == nb2:
        return "declaration-only-class-lost-its-member-functions"
    if collections.Counter(na3) == collections.Counter(nb2) and na3 != na2:
        return "declaration-only-class-lost-its-member-functions+reordered"
    ca, cb = collections.Counter(na2), collections.Counter(nb2)
    if ca == cb:
        import difflib
        moved = set()
        sm = difflib.SequenceMatcher(None, na2, nb2, autojunk=False)
        for tag, i1, i2, j1, j2 in sm.get_opcodes():
            if tag == "equal":
                continue
            for seq, lo, hi in ((na2, i1, i2), (nb2, j1, j2)):
                for k in range(lo, hi):
                    # enclosing element at indentation <= 4 (a direct child of abi-instr / abi-corpus)
                    kk = k
                    while kk > 0 and (len(seq[kk]) - len(seq[kk].lstrip()) > 4 or seq[kk].lstrip().startswith(b"</")):
                        kk -= 1
                    e = elem(seq[kk])
                    if b"is-declaration-only='yes'" in seq[kk]:
                        e += "(decl-only)"
                    moved.add(e)
        return "reordered:" + "+".join(sorted(moved)[:4])
    only_a = sorted({elem(l) for l in (ca - cb)})
    only_b = sorted({elem(l) for l in (cb - ca)})
    return "content:-%s:+%s" % ("+".join(only_a[:3]), "+".join(only_b[:3]))


def dup_anonymous_member(lines):
    import re
    seen = None
    for k, l in enumerate(lines):
        if re.match(rb"\s*<(class|union)-decl ", l):
            seen = set()
        m = re.match(rb"\s*<var-decl name='' type-id='([^']+)'", l)
        if m and seen is not None:
            prev = lines[k - 1].strip() if k else b""
            key = (m.group(1), prev)
            if key in seen:
                return True
            seen.add(key)
    return False
