"""C07 - documented harmless changes are filtered by default and shown with --harmless."""
import os
from .. import core, wl, run, mutate, pairs, report, layout, cc

PROP = "C07"
LEVEL = "exploration"
FLAVORS = ["plain"]
ENGINE = "cli-oracle"
TECHNIQUE = "model-based runtime oracle: catalog of documented-harmless mutations; abidiff must exit 0 by default and list the change with --harmless"
LEVEL_TEXT = ("P and H(P), H one harmless mutation (append an enumerator without size change, rename a typedef of the same underlying "
              "type, add a top-level const to a by-value parameter; with the C++ generator also member access change and a non-exported "
              "non-virtual member function), applied to something reachable from an exported interface.  Default options must give exit "
              "status 0; --harmless must produce a [C] entry naming the mutated entity.")
LEVEL_NOTE = "the report need not be empty by default (it prints a 'filtered out' summary); guards: enum size unchanged per compiler probe, symbol tables equal, debug info differs"
ASSUMPTIONS = [LEVEL_NOTE, "HOME is empty"]


def plan(tier):
    return {"n": 250 if tier == "quick" else 1000, "floor": 60 if tier == "quick" else 266}


def rule(tier):
    return ("case = (P, H(P)) for one harmless mutation of %s x one build configuration; evaluations = abidiff verdicts judged (default "
            "and --harmless); non-trivial = guards established and .debug_info differs; distinct by digest of both sources + "
            "configuration" % sorted(mutate.HARMLESS))


def case(ctx, i):
    rng = ctx.rng(i)
    r = core.CaseResult()
    d = ctx.casedir(i)
    kinds = sorted(mutate.HARMLESS)
    kind = kinds[i % len(kinds)]
    pr, why = pairs.make_pair(ctx, rng, d, mutate.HARMLESS, kinds=[kind], gen_kw={"enums": True})
    if pr is None:
        return r.skip(why)
    e = pr.expects[0]
    what = "%s (%s) %s" % (e.kind, e.detail or e.entity, wl.describe_cfg(pr.cfg))
    if not pairs.debug_info_differs(pr):
        return r.skip("trivial:debug-info-identical")
    if e.kind == "append-enumerator":
        try:
            la = layout.run_probe(pr.p, os.path.join(d, "a"), pr.cfg["family"], pr.cfg["opt"])
            lb = layout.run_probe(pr.q, os.path.join(d, "b"), pr.cfg["family"], pr.cfg["opt"])
        except cc.CompileError:
            return r.skip("probe-failed")
        if la.size != {k: v for k, v in lb.size.items() if k in la.size}:
            return r.skip("guard:some-size-changed")
    res = wl.tool_run(ctx, "abidiff", [pr.a, pr.b], d)
    r.evaluations += 1
    r.add("mutation_kinds", e.kind)
    if run.abnormal(res):
        wl.abnormal_violation(r, res, "abidiff P H(P) [%s]" % what)
        return r
    if res.rc != 0:
        r.violate("oracle:C07:default-not-filtered:" + e.kind, "harmless change gives exit %s with default options for %s" % (res.rc, what), run=res.brief(), expect=e.to_json())
    res2 = wl.tool_run(ctx, "abidiff", ["--harmless", pr.a, pr.b], d)
    r.evaluations += 1
    if run.abnormal(res2):
        wl.abnormal_violation(r, res2, "abidiff --harmless [%s]" % what)
        return r
    rep = report.Report(res2.stdout)
    if rep.unparsed:
        return r.inconclusive("unparsed-report-line:" + rep.unparsed[0][:80])
    listed = False
    for kind_, ent in rep.interfaces(tags=("C",)):
        if e.entity and e.entity in ent.full_text():
            listed = True
        elif e.kind == "param-top-cv" and any(ent.mentions(a) for a in e.affected) and ("const" in ent.full_text() or "volatile" in ent.full_text()):
            listed = True
    if not listed:
        r.violate("oracle:C07:harmless-not-listed:" + e.kind, "--harmless does not list the change (%s); exit %s" % (what, res2.rc), run=res2.brief(), expect=e.to_json())
    r.nontrivial = True
    r.digest = pr.digest
    r.add("configs", wl.describe_cfg(pr.cfg))
    r.sample = {"mutation": e.to_json(), "config": wl.describe_cfg(pr.cfg), "default_status": res.rc, "harmless_status": res2.rc,
                "default_report": res.stdout.split("\n")[:2]}
    return r
