"""C25 - loading and applying any suppression / whitelist file never crashes, aborts, hangs or reads invalid memory."""
import os
from .. import core, wl, run, progen, cc, mutate, inigen
from . import c18

PROP = "C25"
LEVEL = "exploration"
FLAVORS = ["asan"]
ENGINE = "hostile-input"
TECHNIQUE = "sanitizer monitoring (ASan+UBSan, hardened libstdc++) of abidiff/abidw/abicompat fed grammar-generated and byte-mutated suppression and KMI whitelist files; termination classifier"
LEVEL_TEXT = ("suppression files are produced from the INI grammar (every documented property x wrong value shapes: valueless, empty, lists "
              "and tuples where strings are expected, nested / unbalanced braces, escapes incl. trailing backslash, invalid regular "
              "expressions, huge and negative numbers, offset_of/offset_after fragments, unknown sections) and byte-mutated; each is applied "
              "by the ASan+UBSan build of abidiff --suppr (on a changed pair, so that suppressions are evaluated), abidw --suppr, abidw "
              "--kmi-whitelist, abidiff --kmi-whitelist and abicompat --suppr.  Any signal, sanitizer report, assertion or confirmed hang "
              "is a violation.")
LEVEL_NOTE = "the binaries are 6 fixed-per-run generated pairs (C functions with aliases and versions); real names of their functions, types and symbols are fed to the file generator so that sections do match"
ASSUMPTIONS = [LEVEL_NOTE, "a timeout is re-run alone with a 6x budget before it is called a hang"]

NPAIRS = 6


def plan(tier):
    return {"n": 300 if tier == "quick" else 2400, "floor": 80 if tier == "quick" else 600}


def rule(tier):
    return ("case = one generated file (60% grammar, 25% grammar + byte mutations, 15% whitelist grammar) applied by 3 tool invocations "
            "chosen among 5; evaluations = tool executions monitored; non-trivial = the file has >= 1 '[section]' line that the tools' "
            "own parser accepts syntactically (checked independently: a bracketed line followed by >= 1 property line); distinct by file digest")


def prepare(ctx):
    import random
    pairs_ = []
    base = os.path.join(ctx.rundir, "bins")
    k = -1
    seed = 1000
    while len(pairs_) < NPAIRS:
        k = len(pairs_)
        seed += 1
        rng = random.Random(seed)      # fixed binaries: the variable under test is the suppression file
        d = os.path.join(base, str(k))
        try:
            pairs_.append(_one_pair(rng, d, k))
        except cc.CompileError:
            continue
    ctx.shared["pairs"] = pairs_


def _one_pair(rng, d, k):
    if True:
        p = progen.generate(rng, progen.GenOpts(ntypes=10, nfuncs=6, nvars=3, ntus=2), nonce="c25%d" % k)
        c18.decorate(p, rng, "so")
        q = p
        for _ in range(4):
            res = mutate.apply_random(mutate.MIXED, q, rng)
            if res:
                q = res[0]
        a = cc.build(p, os.path.join(d, "a"), family="gcc" if k % 2 else "clang", dwarf=4 + k % 2, kind="so")
        b = cc.build(q, os.path.join(d, "b"), family="gcc" if k % 2 else "clang", dwarf=4 + k % 2, kind="so")
        names = [f.name for f in p.functions] + [v.name for v in p.variables] + [t.name for t in p.types if getattr(t, "name", None)]
        names += ["m_%s_%d" % (p.nonce, j) for j in range(1, 12)]
        return (a, b, names)


def case(ctx, i):
    rng = ctx.rng(i)
    r = core.CaseResult()
    d = ctx.casedir(i)
    a, b, names = ctx.shared["pairs"][i % NPAIRS]
    x = rng.random()
    if x < 0.60:
        data = inigen.gen_file(rng, names).encode("utf-8", "surrogateescape")
        style = "grammar"
    elif x < 0.85:
        data = inigen.mutate_bytes(rng, inigen.gen_file(rng, names).encode("utf-8", "surrogateescape"))
        style = "grammar+bytes"
    else:
        data = inigen.gen_whitelist(rng, names).encode("utf-8", "surrogateescape")
        style = "whitelist"
    path = os.path.join(d, "file.suppr")
    with open(path, "wb") as fh:
        fh.write(data)
    invocations = [
        ("abidiff", ["--suppr", path, a, b]),
        ("abidiff", ["--suppr", path, "--leaf-changes-only", b, a]),
        ("abidw", ["--suppr", path, "--out-file", os.path.join(d, "o.abi"), a]),
        ("abidw", ["--kmi-whitelist", path, "--out-file", os.path.join(d, "o2.abi"), b]),
        ("abidiff", ["--kmi-whitelist", path, a, b]),
        ("abicompat", ["--suppr", path, a, a, b]),
    ]
    if style == "whitelist":
        chosen = [invocations[3], invocations[4], invocations[0]]
    else:
        chosen = [invocations[0]] + rng.sample(invocations[1:], 2)
    for tool, args in chosen:
        res, hang = wl.run_must_terminate(ctx, tool, args, d, flavor="asan")
        r.evaluations += 1
        r.add("invocations", tool + " " + args[0])
        if hang or run.abnormal(res):
            r.violate(res.key, "%s %s with a %s file: %s" % (tool, args[0], style, res.key), run=res.brief(), file=data[:2000].decode("latin-1"))
    lines = data.split(b"\n")
    sect = any(l.strip().startswith(b"[") and l.strip().endswith(b"]") and k + 1 < len(lines) and lines[k + 1].strip() not in (b"",)
               for k, l in enumerate(lines))
    r.nontrivial = sect
    r.digest = core.digest(data)
    r.add("styles", style)
    r.sample = {"style": style, "file": data[:400].decode("latin-1")}
    return r
