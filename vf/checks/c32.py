"""C32 - the worker queue performs every task exactly once and always drains (event-log checker + TSan)."""
import re
from .. import core, run

PROP = "C32"
LEVEL = "exploration"
FLAVORS = ["tsan", "plain"]
ENGINE = "concurrency"
TECHNIQUE = "offline checker over recorded event logs of the real queue (hooks at the protocol's suspension points + client-boundary events), under randomized schedule perturbation, on ThreadSanitizer and plain builds; logical deadlock watchdog"
LEVEL_TEXT = ("harness queue_monitor creates queues through the three constructors with 0..16 workers, schedules 0..N uniquely "
              "identified tasks (single and batched, interleaved with completions, nil tasks, a late task after draining), waits for "
              "completion and destroys the queue, while seeded perturbation (yields, 0-200 us sleeps, rare 2 ms stalls) is injected at the "
              "hook points that lie between critical sections.  Every event (thread, point, queue, task) gets a sequence number from one "
              "atomic counter.  An offline checker decides per scenario: every accepted task has exactly one perform interval and (with a "
              "notifier) exactly one notify interval, nothing unscheduled is performed, notify intervals are pairwise disjoint and start "
              "after the task's perform ended, wait_for_workers_to_complete returned and no event of the queue occurs afterwards, the "
              "completed vector is a permutation of the accepted ids, nil / late / 0-worker schedules are refused.  ThreadSanitizer "
              "watches the same runs for data races; a watchdog reports a deadlock only from a logical witness.")
LEVEL_NOTE = ("only the implementation-trace half of the quantifier belongs to this technique family; the exhaustive protocol model is "
              "not attempted here.  Liveness is restated as bounded progress: no event for 5 s with every thread at a pre-block point")
ASSUMPTIONS = [LEVEL_NOTE, "the event recorder takes no lock: one atomic counter + a preallocated array"]


def _jobs(tier):
    if tier == "quick":
        return [("tsan", 20, 300, 16)] * 10 + [("plain", 30, 2000, 16)] * 10
    return [("tsan", 40, 1500, 16)] * 40 + [("plain", 60, 5000, 16)] * 80


def plan(tier):
    return {"n": len(_jobs(tier)), "floor": 200 if tier == "quick" else 2500, "samples": 3}


def rule(tier):
    return ("case = one queue_monitor process (TSan or plain build) running 20-60 scenarios with its own PRNG stream and perturbation "
            "seed; evaluations = scenarios checked; distinct_nontrivial = number of distinct interleaving signatures (sequence of "
            "(thread, point) of the first 64 hook events of a scenario with >= 2 tasks and >= 2 workers)")


def check_scenario(hdr, lines, r, flavor):
    """lines: the text lines of one scenario.  Adds violations to r; returns the interleaving signature or None."""
    m = re.match(r"SCENARIO (\d+) workers=(\S+) ctor=(\d+) tasks=(\d+) notifier=(\d)", hdr)
    k, workers, ctor, ntasks, has_notifier = int(m.group(1)), m.group(2), int(m.group(3)), int(m.group(4)), m.group(5) == "1"
    nworkers = 16 if workers == "default" else int(workers)
    ptr2id, accepted, order_sched = {}, {}, []
    events, completed, performed_counts = [], None, None
    nil_ok = late_ok = None
    late_performed = 0
    overlaps = 0
    for l in lines:
        w = l.split()
        if not w:
            continue
        if w[0] == "T":
            ptr2id[w[1]] = int(w[2])
        elif w[0] == "S":
            accepted[int(w[1])] = w[2] == "1"
        elif w[0] == "E":
            events.append((int(w[1]), int(w[2]), int(w[3]), w[4], w[5]))
        elif w[0] == "C":
            completed = [int(x) for x in w[1:]]
        elif w[0] == "P":
            performed_counts = [int(x) for x in w[1:]]
        elif w[0] == "NIL":
            nil_ok = w[1] == "1"
        elif w[0] == "LATE":
            late_ok = w[1] == "1"
        elif w[0] == "LATEPERFORMED":
            late_performed = int(w[1])
        elif w[0] == "N":
            overlaps = int(re.search(r"overlaps=(\d+)", l).group(1))
    what = "scenario %d: %s workers (ctor %d), %d tasks, notifier=%s, %s build" % (k, workers, ctor, ntasks, has_notifier, flavor)

    def V(key, msg):
        r.violate("oracle:C32:" + key, "%s [%s]" % (msg, what))
    ids_accepted = {i for i, ok in accepted.items() if ok}
    # schedule results
    if nworkers == 0 and ids_accepted:
        V("accepted-with-no-worker", "schedule_task returned true on a queue without workers for ids %s" % sorted(ids_accepted)[:4])
    if nworkers > 0 and len(ids_accepted) != ntasks:
        V("refused-valid-task", "schedule_task refused %d valid tasks" % (ntasks - len(ids_accepted)))
    if nil_ok:
        V("nil-task-accepted", "schedule_task(nil) returned true")
    if late_ok and nworkers == 0:
        V("late-task-accepted", "schedule_task on a worker-less queue returned true")
    if late_performed:
        V("late-task-performed", "a task scheduled after wait_for_workers_to_complete() was performed")
    # intervals
    perf, noti = {}, {}
    wait_ret_seq = None
    destroyed_seq = None
    for seq, th, pt, q, t in events:
        tid = ptr2id.get(t)
        if pt == 101:
            perf.setdefault(tid, []).append([seq, None, th])
        elif pt == 102:
            if tid in perf and perf[tid][-1][1] is None:
                perf[tid][-1][1] = seq
        elif pt == 103:
            noti.setdefault(tid, []).append([seq, None, th])
        elif pt == 104:
            if tid in noti and noti[tid][-1][1] is None:
                noti[tid][-1][1] = seq
        elif pt == 121:
            wait_ret_seq = seq
        elif pt == 131:
            destroyed_seq = seq
    for tid in sorted(ids_accepted):
        n = len(perf.get(tid, []))
        if n != 1:
            V("perform-count-%s" % ("zero" if n == 0 else "many"), "task %d was performed %d times" % (tid, n))
        if has_notifier:
            n2 = len(noti.get(tid, []))
            if n2 != 1:
                V("notify-count-%s" % ("zero" if n2 == 0 else "many"), "the notifier ran %d times for task %d" % (n2, tid))
            elif n == 1 and perf[tid][0][1] is not None and noti[tid][0][0] < perf[tid][0][1]:
                V("notify-before-perform-ended", "notify(%d) started at seq %d, before perform ended at seq %d" % (tid, noti[tid][0][0], perf[tid][0][1]))
    for tid in perf:
        if tid is None or (tid not in ids_accepted):
            if tid == -1:
                V("late-task-performed", "the late task was performed")
            else:
                V("unscheduled-task-performed", "task %r was performed but never accepted by schedule_task" % tid)
    if performed_counts is not None:
        for tid, c in enumerate(performed_counts):
            exp = 1 if tid in ids_accepted else 0
            if c != exp:
                V("perform-counter-%s" % ("low" if c < exp else "high"), "task %d's own counter says it was performed %d times (expected %d)" % (tid, c, exp))
    # notifier never concurrent with itself
    ivs = sorted((a, b) for v in noti.values() for a, b, _t in v if b is not None)
    for (a1, b1), (a2, b2) in zip(ivs, ivs[1:]):
        if a2 < b1:
            V("notifier-overlap", "two notifier invocations overlap: [%d,%d] and [%d,%d]" % (a1, b1, a2, b2))
            break
    if overlaps:
        V("notifier-overlap", "the notifier observed itself running concurrently %d times" % overlaps)
    # drained: nothing happens after wait returned
    if wait_ret_seq is None:
        V("wait-did-not-return", "wait_for_workers_to_complete() never returned")
    else:
        after = [(s, p) for s, th, p, q, t in events if s > wait_ret_seq and p in (5, 6, 7, 101, 102, 103, 104)]
        if after:
            V("event-after-wait-returned", "queue activity after wait_for_workers_to_complete() returned: %s" % after[:3])
    if completed is not None:
        if sorted(completed) != sorted(ids_accepted):
            V("completed-not-a-permutation", "get_completed_tasks() = %s..., accepted = %s..." % (sorted(completed)[:6], sorted(ids_accepted)[:6]))
    # interleaving signature
    sig = None
    if ntasks >= 2 and nworkers >= 2:
        hook = [(th, pt) for s, th, pt, q, t in events if pt < 100][:64]
        sig = core.digest(hook)
    return sig, len(events)


def case(ctx, i):
    r = core.CaseResult()
    flavor, scenarios, max_tasks, max_workers = _jobs(ctx.tier)[i]
    seed = ctx.seed * 100000 + i
    d = ctx.casedir(i)
    res = run.run([ctx.tool("queue_monitor", flavor), seed, scenarios, max_tasks, max_workers], cwd=d, timeout=1800,
                  env={"VERIF_SCHED_SEED": str(seed), "TSAN_OPTIONS": "halt_on_error=0:exitcode=0:report_signal_unsafe=0"})
    if res.timeout:
        return r.inconclusive("timeout")
    out = res.stdout
    if "DEADLOCK" in out:
        m = re.search(r"DEADLOCK .*", out)
        r.violate("oracle:C32:deadlock", "no event for 5 s and every thread sits at a pre-block point: %s" % m.group(0)[:300], flavor=flavor, seed=seed)
    if "STALL" in out:
        return r.inconclusive("stall-without-deadlock-witness")
    # TSan reports (halt_on_error=0): de-duplicate by kind + top frames without line numbers
    reports = re.findall(r"WARNING: ThreadSanitizer: ([^\n(]+)\(pid=\d+\)(.*?)(?=\nWARNING: ThreadSanitizer|\nSUMMARY: ThreadSanitizer: [^\n]*\n(?!.*WARNING)|\Z)", res.stderr, re.S)
    seen = set()
    for kind, body in reports:
        fr = [run._clean_fn(f) for f, _loc in run.frames(body) if "queue_monitor" not in f][:40]
        ab = [f for f in fr if "abigail" in f or "my_" in f][:2]
        key = "san:tsan:%s:%s" % (kind.strip().replace(" ", "-"), "|".join(ab) or "?")
        if key not in seen:
            seen.add(key)
            r.violate(key, "ThreadSanitizer: %s in %s" % (kind.strip(), ab), flavor=flavor, seed=seed, report=body[:1500])
    if run.abnormal(res) and res.kind != "sanitizer":
        r.violate(res.key, "queue_monitor terminated abnormally: %s" % res.key, run=res.brief())
        return r
    # split scenarios
    blocks = re.split(r"(?m)^(?=SCENARIO )", out)
    nsc = 0
    for b in blocks:
        if not b.startswith("SCENARIO"):
            continue
        lines = b.split("\n")
        if not any(l.startswith("END ") for l in lines):
            if "DEADLOCK" not in out:
                r.violate("oracle:C32:scenario-did-not-finish", "scenario did not reach its end: %s" % lines[0])
            continue
        sig, nev = check_scenario(lines[0], lines[1:], r, flavor)
        nsc += 1
        r.count("events", nev)
        if sig:
            r.add("interleavings", sig)
    r.evaluations = nsc
    r.count("scenarios_" + flavor, nsc)
    r.nontrivial = nsc > 0
    r.digest = "job%d" % i
    r.sample = {"flavor": flavor, "seed": seed, "scenarios": nsc, "example": blocks[1].split("\n")[0] if len(blocks) > 1 else ""}
    return r


def count_nontrivial(results):
    s = set()
    for r in results:
        s |= set(r.sets.get("interleavings", []))
    return len(s)
