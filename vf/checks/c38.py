"""C38 - sequence diff engine vs. reference LCS (harness/diffutils_check.cc)."""
import re
from .. import core, run

PROP = "C38"
LEVEL = "exploration"
FLAVORS = ["asan"]
ENGINE = "api-harness"
TECHNIQUE = "runtime oracle: reference LCS + edit-script replay over exhaustive small scope and random sequences, under ASan/UBSan"
LEVEL_TEXT = ("compute_diff is run on every pair of a small finite space (exhaustive) and on random longer pairs; each result is "
              "checked by an independent reference (script replay, DP LCS). Held = no disagreement on the pairs explored.")
LEVEL_NOTE = "trusts the reference DP and the stated edit-script semantics; sequences beyond the explored lengths are not covered"
ASSUMPTIONS = [
    "reference LCS is a textbook O(n*m) dynamic program written for this check",
    "edit script semantics: deletion(i) removes A[i]; insertion(p, js) puts B[j] after A[p] (p=-1: at the start), "
    "same-point insertions ordered by B index",
    "exhaustive sub-space: all pairs of sequences up to the stated length over the stated alphabet, default ==; "
    "the predicate sub-spaces use 'equal modulo 3' over a 6-value alphabet where == and the predicate disagree",
]

# (mode, args) job lists
def _jobs(tier):
    jobs = []
    if tier == "quick":
        for part in range(8):
            jobs.append(("exh", [5, 3, 0, part, 8]))          # 364^2 = 132 496 pairs
        for part in range(4):
            jobs.append(("exh", [3, 6, 1, part, 4]))          # 259^2 pairs, modulo-3 predicate
        for s in range(8):
            jobs.append(("rand", [s, 1500, 120, 4, 0]))
        for s in range(4):
            jobs.append(("rand", [s, 1000, 60, 9, 1]))
        for s in range(4):
            jobs.append(("rand", [s, 1000, 60, 52, 2]))
    else:
        for part in range(32):
            jobs.append(("exh", [7, 3, 0, part, 32]))         # 3280^2 = 10.76 M pairs
        for part in range(16):
            jobs.append(("exh", [4, 6, 1, part, 16]))         # 1555^2 = 2.4 M pairs
        for s in range(32):
            jobs.append(("rand", [s, 8000, 300, 4, 0]))
        for s in range(16):
            jobs.append(("rand", [s, 8000, 200, 9, 1]))
        for s in range(16):
            jobs.append(("rand", [s, 8000, 200, 52, 2]))
    return jobs


def plan(tier):
    return {"n": len(_jobs(tier)), "floor": 1000, "exhaustive": True, "samples": 3}


def rule(tier):
    return ("every job is one run of diffutils_check under ASan+UBSan: exhaustive jobs enumerate all pairs of "
            "sequences (quick: length<=5 over 3 letters with ==, length<=3 over 6 values with the modulo-3 predicate; "
            "thorough: length<=7 / length<=4) split in parts; random jobs draw independent or few-edits-apart "
            "sequence pairs up to length 120..300.  evaluations = pairs checked; a pair is non-trivial when "
            "0 < LCS and the expected edit distance > 0; distinct_nontrivial counts such pairs "
            "(pairs are distinct by construction in exhaustive jobs; random jobs use disjoint PRNG streams).")


def case(ctx, i):
    r = core.CaseResult()
    mode, args = _jobs(ctx.tier)[i]
    if mode == "rand":
        args = [ctx.seed * 1000 + args[0]] + args[1:]
    d = ctx.casedir(i)
    res = run.run([ctx.tool("diffutils_check"), mode] + args, cwd=d, timeout=1800)
    label = "%s %s" % (mode, " ".join(map(str, args)))
    if res.timeout:
        return r.inconclusive("timeout:" + label)
    if run.abnormal(res):
        cur = re.search(r"VERIF-CURRENT (.*)", res.stderr)
        r.violate(res.key, "compute_diff terminated abnormally (%s) on %s" % (res.key, cur.group(1) if cur else label),
                  run=res.brief())
        return r
    if res.rc != 0:
        raise RuntimeError("diffutils_check failed: %r" % res.brief())
    m = re.search(r"SUMMARY pairs=(\d+) nontrivial=(\d+) lcs_points=(\d+) script_ops=(\d+) dhist=(\S*)", res.stdout)
    pairs, nontriv = int(m.group(1)), int(m.group(2))
    r.evaluations = pairs
    r.count("pairs", pairs)
    r.count("lcs_points_reported", int(m.group(3)))
    r.count("edit_operations_checked", int(m.group(4)))
    r.count("pairs_pred%d" % args[-1 if mode == "rand" else 2], pairs)
    r.nontrivial = nontriv > 0
    r.digest = label
    r.nt_count = nontriv
    for line in res.stdout.splitlines():
        if line.startswith("V "):
            mm = re.match(r"V (\S+) count=(\d+) witness=(.*)", line)
            key, cnt, wit = mm.group(1), int(mm.group(2)), mm.group(3)
            r.count("violating_pairs:" + key, cnt)
            feature = key
            r.violate("oracle:C38:" + feature, "%s on %d pairs of job [%s], e.g. %s" % (key, cnt, label, wit),
                      witness=wit, job=label)
    r.sample = {"job": label, "pairs": pairs, "nontrivial_pairs": nontriv, "distance_histogram": m.group(5)}
    return r


def count_nontrivial(results):
    return sum(getattr(r, "nt_count", 0) for r in results)
