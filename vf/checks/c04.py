"""C04 - abidw output is well-formed XML and self-contained (ids, symbol ids)."""
import os
import subprocess
from .. import core, progen, cc, wl, run, abixml
from . import c01

PROP = "C04"
LEVEL = "exploration"
FLAVORS = ["plain"]
ENGINE = "cli-oracle"
TECHNIQUE = "independent observer: expat parse + referential-integrity walk of abidw output for generated and hostile-named binaries"
LEVEL_TEXT = ("abidw documents for generated binaries - a share of them with XML metacharacters / non-ASCII bytes injected in exactly one "
              "place (a symbol name via objcopy --redefine-sym, the SONAME, a DT_NEEDED entry, or the source directory) - are parsed with "
              "expat and walked: every referenced type id must be defined exactly once and every elf-symbol-id must be listed in the "
              "document's symbol tables.  Held = all documents explored are well-formed and self-contained.")
LEVEL_NOTE = ("control characters (not representable in XML 1.0) are not injected; the list of id-valued attributes is closed and an "
              "unknown '*-id' attribute makes the case inconclusive")
ASSUMPTIONS = [LEVEL_NOTE, "expat is the arbiter of well-formedness"]

CLASSES = {
    "meta": ["a<b", "x&y", "q'r", 'd"e', "a>b", "<&'\">", "t<int>&"],
    "utf8": ["café", "日本", "naïve_λ"],
    "latin1": [b"caf\xe9", b"\xfcber\xff"],
}
PLACES = ["symbol", "varsymbol", "soname", "needed", "path"]


def plan(tier):
    return {"n": 200 if tier == "quick" else 800, "floor": 40 if tier == "quick" else 160}


def rule(tier):
    return ("case = one generated program x build configuration; 60% of the cases get one hostile string (class meta/utf8/latin1) in one "
            "place (symbol, variable symbol, soname, needed, source path); evaluations = documents checked; non-trivial = hostile cases "
            "where the string was found (un-escaped) in an attribute value of the document, plus plain cases with a non-trivial corpus; "
            "distinct by source digest + place + string")


def case(ctx, i):
    rng = ctx.rng(i)
    r = core.CaseResult()
    d = ctx.casedir(i)
    lang = "cxx" if (rng.random() < 0.3 and c01.progen_has_cxx()) else "c"
    prog = progen.generate(rng, wl.gen_opts(rng, ctx.tier, lang=lang))
    cfg = wl.pick_config(rng)
    hostile = rng.random() < 0.6
    place = cls = hs = None
    srcdir = None
    ldextra = []
    post = None
    if hostile:
        place = rng.choice(PLACES)
        cls = rng.choice(["meta", "meta", "utf8", "latin1"])
        hs = rng.choice(CLASSES[cls])
        hb = hs if isinstance(hs, bytes) else hs.encode("utf-8")
        if place in ("soname", "needed"):
            cfg["kind"] = "so"
        if place == "soname":
            prog.soname = None
            ldextra = [b"-Wl,-soname,lib" + hb + b".so"]
        elif place == "needed":
            dep = os.path.join(d.encode(), b"libdep" + hb.replace(b"/", b"_") + b".so")
            depc = os.path.join(d, "dep.c")
            open(depc, "w").write("int verif_dep_%s(void) { return 1; }\n" % prog.nonce)
            rr = subprocess.run([b"gcc", b"-shared", b"-fPIC", b"-o", dep, depc.encode(), b"-Wl,-soname," + os.path.basename(dep)],
                                stdout=subprocess.PIPE, stderr=subprocess.STDOUT)
            if rr.returncode != 0:
                return r.skip("dep-build-failed")
            ldextra = [b"-Wl,--no-as-needed", dep]
        elif place == "path":
            if b"/" in hb:
                hb = hb.replace(b"/", b"_")
            srcdir = os.path.join(d.encode(), b"src" + hb)
        elif place in ("symbol", "varsymbol"):
            targets = prog.exported_functions() if place == "symbol" else prog.exported_variables()
            targets = [t for t in targets if not getattr(t, "version", None) and not t.aliases]
            if not targets:
                return r.skip("no-target-for-rename")
            tgt = rng.choice(targets)
            newname = tgt.name.encode() + b"_" + hb
            if cfg["kind"] == "exec":
                cfg["kind"] = "so"

            def post(objs, old=tgt.name.encode(), new=newname):
                for o in objs:
                    subprocess.run([b"objcopy", b"--redefine-sym", old + b"=" + new, o.encode()], check=True)
    try:
        if srcdir is not None:
            binp = build_in_bytes_dir(prog, d, srcdir, cfg)
        else:
            binp = cc.build(prog, d, ldextra=ldextra, post_compile=post, **cfg)
    except (cc.CompileError, subprocess.CalledProcessError) as ex:
        return r.skip("compile-error:" + str(ex)[-300:])
    xml = os.path.join(d, "out.abi")
    wopts = [] if rng.random() < 0.6 else rng.choice([["--annotate"], ["--load-all-types"], ["--type-id-style", "hash"], ["--no-show-locs"]])
    w = wl.abidw(ctx, binp, xml, wopts)
    r.evaluations = 1
    tag = "%s:%s" % (place, cls) if hostile else "plain"
    r.add("injection", tag)
    if run.abnormal(w):
        wl.abnormal_violation(r, w, "abidw (%s)" % tag)
        return r
    if w.rc != 0 or not os.path.exists(xml):
        r.violate("oracle:C04:abidw-failed:" + tag, "abidw exits %s on a %s binary" % (w.rc, tag), run=w.brief())
        return r
    data = open(xml, "rb").read()
    try:
        doc = abixml.Doc(data)
    except abixml.ParseError as ex:
        r.violate("oracle:C04:malformed:" + tag, "abidw output is not well-formed XML (%s): %s" % (tag, ex), hostile=repr(hs), config=wl.describe_cfg(cfg))
        r.nontrivial = True
        r.digest = core.digest(progen.source_digest(progen.render(prog)), tag, repr(hs))
        return r
    if doc.unknown_id_attrs:
        return r.inconclusive("unknown id attributes: %s" % sorted(doc.unknown_id_attrs))
    # referential integrity
    for n, a, tid in doc.type_refs():
        defs = doc.ids.get(tid, [])
        if len(defs) == 0:
            r.violate("oracle:C04:dangling-type-id:" + n.tag, "%s@%s='%s' is not defined in the document (%s, abidw %s)" % (n.tag, a, tid, tag, " ".join(wopts)))
            break
    referenced = {tid for _n, _a, tid in doc.type_refs()}
    for tid, defs in doc.ids.items():
        # the statement is about ids that are *referenced*; abidw legitimately repeats the id of an
        # (unreferenced) identical <subrange> in every array that shares it
        if len(defs) > 1 and tid in referenced:
            r.violate("oracle:C04:duplicate-type-id:" + defs[0].tag, "id '%s' is defined %d times (%s; abidw %s)" % (tid, len(defs), ", ".join(x.tag for x in defs), " ".join(wopts)))
            break
    symids = doc.symbol_ids()
    for n in doc.root.walk():
        sid = n.attrs.get("elf-symbol-id")
        if sid is not None and sid not in symids:
            r.violate("oracle:C04:dangling-elf-symbol-id:" + n.tag, "%s elf-symbol-id='%s' is not in the symbol tables (%s)" % (n.tag, sid, tag))
            break
    # non-triviality
    if hostile:
        want = hs.decode("utf-8", "replace") if isinstance(hs, bytes) else hs
        if isinstance(hs, bytes):
            reached = any(hs.decode("latin-1") in v or want in v for n in doc.root.walk() for v in n.attrs.values())
        else:
            reached = any(want in v for n in doc.root.walk() for v in n.attrs.values())
        r.nontrivial = reached
        if not reached:
            r.count("hostile_string_not_reached")
    else:
        r.nontrivial = wl.nontrivial_corpus(prog)
    r.digest = core.digest(progen.source_digest(progen.render(prog)), tag, repr(hs))
    r.sample = {"injection": tag, "string": repr(hs), "config": wl.describe_cfg(cfg), "abidw_options": wopts,
                "type_ids": len(doc.ids), "symbols": len(doc.fn_syms) + len(doc.var_syms)}
    return r


def build_in_bytes_dir(prog, d, srcdir, cfg):
    """Sources live in a directory whose name holds the hostile bytes (comp-dir / file paths of the DWARF)."""
    os.makedirs(srcdir, exist_ok=True)
    files = progen.render(prog)
    for fn, text in files.items():
        with open(os.path.join(srcdir, fn.encode()), "w") as fh:
            fh.write(text)
    ccx = cc.compiler_for(prog.lang, cfg["family"]).encode()
    ext = b"c" if prog.lang == "c" else b"cc"
    objs = []
    for tu in range(prog.ntus):
        obj = os.path.join(d, "tu%d.o" % tu).encode()
        argv = [ccx, b"-c", b"-w", b"-g", b"-gdwarf-%d" % cfg["dwarf"], cfg["opt"].encode(), b"-fPIC", b"-o", obj, b"tu%d." % tu + ext]
        rr = subprocess.run(argv, cwd=srcdir, stdout=subprocess.PIPE, stderr=subprocess.STDOUT)
        if rr.returncode != 0:
            raise cc.CompileError(rr.stdout.decode(errors="replace")[-500:])
        objs.append(obj)
    out = os.path.join(d, "lib.so").encode()
    rr = subprocess.run([ccx, b"-shared", b"-o", out] + objs, stdout=subprocess.PIPE, stderr=subprocess.STDOUT)
    if rr.returncode != 0:
        raise cc.CompileError(rr.stdout.decode(errors="replace")[-500:])
    return out.decode()
