"""C43 - the debug-info format does not change the verdict."""
import os
from .. import core, wl, run, progen, cc
from . import c01

PROP = "C43"
LEVEL = "exploration"
FLAVORS = ["plain"]
ENGINE = "cli-oracle"
TECHNIQUE = "metamorphic runtime oracle: the same sources built with two debug-info configurations (DWARF 4/5, column info on/off, type units on/off) must compare as identical"
LEVEL_TEXT = ("each generated program is compiled twice with the same compiler and code-generation flags but a different debug-info "
              "configuration; abidiff (default options) between the two binaries must exit 0 and print nothing.  The three axes are judged "
              "and keyed separately.")
LEVEL_NOTE = "axes: -gdwarf-4 vs -gdwarf-5; -gcolumn-info vs -gno-column-info; -fdebug-types-section on/off (C++ with gcc, when the C++ generator is enabled; C with gcc as well)"
ASSUMPTIONS = [LEVEL_NOTE]

AXES = ["dwarf-version", "column-info", "type-units"]


def plan(tier):
    return {"n": 120 if tier == "quick" else 480, "floor": 30 if tier == "quick" else 115}


def rule(tier):
    return ("case = one generated program x compiler x optimisation level x binary kind, built under the two settings of each of the 3 "
            "axes; evaluations = abidiff comparisons (both orders) judged; non-trivial = corpus non-trivial (C01 rule) and the two "
            ".debug_info sections differ; distinct by source digest + configuration")


def case(ctx, i):
    rng = ctx.rng(i)
    r = core.CaseResult()
    d = ctx.casedir(i)
    lang = "cxx" if (rng.random() < 0.4 and c01.progen_has_cxx()) else "c"
    prog = progen.generate(rng, wl.gen_opts(rng, ctx.tier, lang=lang))
    family = rng.choice(["gcc", "clang"])
    opt = rng.choice(["-O0", "-O1"])
    kind = rng.choice(["so", "so", "exec", "rel"])
    base_dwarf = rng.choice([4, 5])
    variants = {
        "dwarf-version": (dict(dwarf=4), dict(dwarf=5)),
        "column-info": (dict(dwarf=base_dwarf, extra=["-gcolumn-info"]), dict(dwarf=base_dwarf, extra=["-gno-column-info"])),
    }
    if family == "gcc":
        variants["type-units"] = (dict(dwarf=base_dwarf, extra=[]), dict(dwarf=base_dwarf, extra=["-fdebug-types-section"]))
    nt = False
    for axis, (c1, c2) in variants.items():
        try:
            a = cc.build(prog, os.path.join(d, axis, "a"), family=family, opt=opt, kind=kind, **c1)
            b = cc.build(prog, os.path.join(d, axis, "b"), family=family, opt=opt, kind=kind, **c2)
        except cc.CompileError as ex:
            r.count("compile_errors")
            continue
        if cc.section_digest(a, (".debug_info", ".debug_types", ".debug_line")) != cc.section_digest(b, (".debug_info", ".debug_types", ".debug_line")):
            nt = True
        what = "%s: %s %s %s %s vs %s" % (axis, family, opt, kind, c1, c2)
        for x, y in ((a, b), (b, a)):
            res = wl.tool_run(ctx, "abidiff", [x, y], d)
            r.evaluations += 1
            r.add("axes", axis)
            if run.abnormal(res):
                wl.abnormal_violation(r, res, "abidiff [%s]" % what)
                continue
            if res.rc != 0 or res.stdout.strip():
                # the type-unit axis fails in many shapes (see known findings): one coarse key for it, detailed keys elsewhere
                feat = "reported-different" if axis == "type-units" else wl.report_feature(res.stdout)
                r.violate("oracle:C43:%s:%s:%s" % (axis, lang, feat),
                          "same sources, different debug-info configuration, reported as different (exit %s) [%s]" % (res.rc, what), run=res.brief())
                break
    if r.evaluations == 0:
        return r.skip("compile-error")
    r.nontrivial = nt and wl.nontrivial_corpus(prog)
    r.digest = core.digest(progen.source_digest(progen.render(prog)), family, opt, kind)
    r.add("configs", "%s %s %s %s" % (family, opt, kind, lang))
    r.sample = {"compiler": family, "opt": opt, "kind": kind, "lang": lang, "axes": sorted(variants)}
    return r
