"""C06 - ABI-neutral source edits are never reported."""
from .. import core, wl, run, mutate, pairs

PROP = "C06"
LEVEL = "exploration"
FLAVORS = ["plain"]
ENGINE = "cli-oracle"
TECHNIQUE = "metamorphic runtime oracle: catalog of ABI-neutral rewrites of the program model; abidiff P N(P) must exit 0 and print nothing"
LEVEL_TEXT = ("P and N(P), N a composition of 1-3 neutral rewrites (bodies, parameter names, definition order, moving definitions between "
              "translation units, line shifts, adding/removing static functions and variables, adding unused types), are built with the "
              "same compiler and flags; abidiff with default options must be silent.  Held = silent on every judged pair.")
LEVEL_NOTE = "only catalog rewrites; both builds use the identical command line"
ASSUMPTIONS = [LEVEL_NOTE, "HOME is empty"]


def plan(tier):
    return {"n": 300 if tier == "quick" else 1200, "floor": 80 if tier == "quick" else 300}


def rule(tier):
    return ("case = (P, N(P)) with 1-3 rewrites of %s x one build configuration; evaluations = abidiff runs judged (both argument "
            "orders); non-trivial = the two binaries differ byte-wise in .debug_info/.text/.symtab; distinct by digest of both sources + "
            "configuration" % sorted(mutate.NEUTRAL))


def case(ctx, i):
    rng = ctx.rng(i)
    r = core.CaseResult()
    d = ctx.casedir(i)
    kinds = sorted(mutate.NEUTRAL)
    first = kinds[i % len(kinds)]
    nm = rng.choice([1, 1, 2, 3])
    gen_kw = {"ntus": rng.choice([2, 3])} if first == "move-between-tus" else None
    pr, why = pairs.make_pair(ctx, rng, d, mutate.NEUTRAL, kinds=[first] if nm == 1 else None, nmut=nm, gen_kw=gen_kw)
    if pr is None:
        return r.skip(why)
    from .. import cc
    if cc.section_digest(pr.a, (".debug_info", ".debug_line", ".text", ".symtab", ".debug_str")) == \
            cc.section_digest(pr.b, (".debug_info", ".debug_line", ".text", ".symtab", ".debug_str")):
        return r.skip("trivial:binaries-identical")
    what = "+".join(e.kind for e in pr.expects) + " " + wl.describe_cfg(pr.cfg)
    for a, b, tag in ((pr.a, pr.b, "fwd"), (pr.b, pr.a, "rev")):
        res = wl.tool_run(ctx, "abidiff", [a, b], d)
        r.evaluations += 1
        if run.abnormal(res):
            wl.abnormal_violation(r, res, "abidiff P N(P) [%s]" % what)
            continue
        if res.rc != 0 or res.stdout.strip():
            feat = wl.report_feature(res.stdout)
            fam = bool(wl.anonymous_markers(res.stdout))
            if res.rc == 0:
                # only a "(N filtered out)" summary: look at what was filtered
                full = wl.tool_run(ctx, "abidiff", ["--harmless", "--redundant", a, b], d)
                if not run.abnormal(full):
                    import re
                    if re.search(r"'const volatile void' changed to 'volatile void'|'volatile void' changed to 'const volatile void'", full.stdout):
                        feat += "+cv-void-normalisation"
                        fam = True
                    elif wl.anonymous_markers(full.stdout):
                        feat += "+" + "+".join(wl.anonymous_markers(full.stdout))
                        fam = True
            # reports about anonymous types in compound positions (or the cv-void normalisation) form one family whatever the edit was
            r.violate("oracle:C06:reported:%s:%s" % ("any-edit" if fam else "+".join(sorted({e.kind for e in pr.expects})), feat),
                      "neutral edit reported (exit %s, %d bytes of report) for %s" % (res.rc, len(res.stdout), what), run=res.brief())
    for e in pr.expects:
        r.add("rewrite_kinds", e.kind)
    r.nontrivial = True
    r.digest = pr.digest
    r.add("configs", wl.describe_cfg(pr.cfg))
    r.sample = {"rewrites": [e.kind for e in pr.expects], "config": wl.describe_cfg(pr.cfg)}
    return r
