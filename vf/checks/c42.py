"""C42 - interned strings vs std::string semantics (harness/intern_check.cc)."""
from . import _harnessjobs as hj

PROP = "C42"
LEVEL = "exploration"
FLAVORS = ["asan"]
ENGINE = "api-harness"
TECHNIQUE = "runtime oracle: shadow std::string / std::set model of the intern pool, random multisets, under ASan/UBSan"
LEVEL_TEXT = ("random multisets of strings (empty, prefixes/extensions of each other, duplicates, control and high bytes) are interned "
              "in one environment / pool; identity, ==, !=, <, hashing, set membership, conversion, concatenation and streaming are "
              "compared with the std::string shadow for random pairs; held = no disagreement observed.")
LEVEL_NOTE = "only strings interned in the same pool are compared for identity; NUL bytes are not generated; default-constructed handles are compared with plain strings only"
ASSUMPTIONS = [LEVEL_NOTE]


def _jobs(tier):
    if tier == "quick":
        return [(s, 40, 150) for s in range(16)]
    return [(s, 400, 400) for s in range(32)]


def plan(tier):
    return {"n": len(_jobs(tier)), "floor": 1000, "samples": 3}


def rule(tier):
    return ("each job = intern_check with its own PRNG stream: R rounds (alternating environment::intern and "
            "interned_string_pool::create_string), each interning N random strings and judging 6N random pairs; evaluations = "
            "string/pair evaluations; non-trivial pair = contents differ only by length (one is a proper prefix of the other)")


def case(ctx, i):
    s, rounds, ops = _jobs(ctx.tier)[i]
    r, _ = hj.run_job(ctx, i, PROP, "intern_check", [ctx.seed * 100 + s, rounds, ops], "intern seed=%d rounds=%d ops=%d" % (ctx.seed * 100 + s, rounds, ops))
    return r


count_nontrivial = hj.count_nontrivial
