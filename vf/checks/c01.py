"""C01 - comparing a binary with itself reports nothing."""
import os
from .. import core, progen, cc, wl, run

PROP = "C01"
LEVEL = "exploration"
FLAVORS = ["plain"]
ENGINE = "cli-oracle"
TECHNIQUE = "metamorphic runtime oracle: abidiff X X' must exit 0 with empty output over generated programs x build matrix x forms x option sets"
LEVEL_TEXT = ("random C/C++ programs are compiled (gcc/clang, DWARF 4/5, -O0/-O1, DSO/PIE/relocatable, optionally stripped), "
              "then abidiff compares the binary with itself as ELF, as its abidw ABIXML (both orders, both XML) under sampled "
              "option sets; any output or non-zero status is a violation.  Held = silent on the cases explored.")
LEVEL_NOTE = ("programs are those the generator can express (DESIGN 1.3); corpus groups are exercised by C28's kernel-tree workload, "
              "not here")
ASSUMPTIONS = [LEVEL_NOTE, "HOME is an empty directory (no user suppression file)"]

OPTS = [[], ["--leaf-changes-only"], ["--harmless"], ["--redundant"], ["--non-reachable-types"], ["--no-show-locs"],
        ["--stat"], ["--no-default-suppression"], ["--impacted-interfaces", "--leaf-changes-only"],
        ["--no-unreferenced-symbols"], ["--show-bytes", "--show-hex"], ["--no-linkage-name"], ["--no-added-syms"]]


def plan(tier):
    return {"n": 240 if tier == "quick" else 960, "floor": 40 if tier == "quick" else 153}


def rule(tier):
    return ("case = one generated program x one build configuration; it is compared with itself in 4 forms (ELF-ELF, ELF-XML, "
            "XML-ELF, XML-XML) x 3 option sets (default + 2 random unions of %d base sets); evaluations = abidiff runs judged; "
            "non-trivial = the corpus has >=1 exported function/variable and >=3 named types reachable from the interface; "
            "distinct by source digest + build configuration" % len(OPTS))


def optset(rng):
    k = rng.choice([1, 1, 2, 3])
    s = []
    for o in rng.sample(OPTS, k):
        for x in o:
            if x not in s:
                s.append(x)
    return s


def case(ctx, i):
    rng = ctx.rng(i)
    r = core.CaseResult()
    d = ctx.casedir(i)
    lang = "cxx" if (rng.random() < 0.3 and progen_has_cxx()) else "c"
    opts = wl.gen_opts(rng, ctx.tier, lang=lang)
    prog = progen.generate(rng, opts)
    cfg = wl.pick_config(rng)
    if lang == "c":
        decorate_symbols(prog, rng, cfg["kind"])
    strip = rng.random() < 0.1
    try:
        binp = cc.build(prog, d, strip_debug=strip, **cfg)
    except cc.CompileError as ex:
        return r.skip("compile-error:" + str(ex)[-300:])
    load_all = rng.random() < 0.3
    xml = os.path.join(d, "lib.abi")
    w = wl.abidw(ctx, binp, xml, ["--load-all-types"] if load_all else [])
    if run.abnormal(w):
        wl.abnormal_violation(r, w, "abidw on generated binary")
        return r
    if w.rc != 0 or not os.path.exists(xml):
        r.violate("oracle:C01:abidw-failed", "abidw exits %s on a compiler-produced binary" % w.rc, run=w.brief())
        return r
    sets = [[]] + [optset(rng) for _ in range(2)]
    forms = [("elf-elf", binp, binp), ("elf-xml", binp, xml), ("xml-elf", xml, binp), ("xml-xml", xml, xml)]
    for fname, a, b in forms:
        for s in sets:
            # a document written without --load-all-types does not carry the non-reachable types, so
            # with --non-reachable-types its *report* is not judged (only abnormal termination is)
            judge_report = not ("--non-reachable-types" in s and fname != "elf-elf" and not load_all)
            res = wl.tool_run(ctx, "abidiff", s + [a, b], d)
            r.evaluations += 1
            r.add("option_sets", " ".join(s) or "(default)")
            if run.abnormal(res):
                wl.abnormal_violation(r, res, "self comparison %s %s" % (fname, " ".join(s)))
                continue
            if judge_report and (res.rc != 0 or res.stdout.strip()):
                feat = "+".join(x for x in wl.report_feature(res.stdout).split("+") if x != "leaf") or "leaf-report"
                r.violate("oracle:C01:%s:%s" % (fname, feat),
                          "self comparison (%s, options '%s', %s%s) exits %s and prints %d bytes"
                          % (fname, " ".join(s), wl.describe_cfg(cfg), ", stripped" if strip else "", res.rc, len(res.stdout)),
                          run=res.brief())
    r.nontrivial = wl.nontrivial_corpus(prog)
    r.digest = core.digest(progen.source_digest(progen.render(prog)), cfg, strip)
    r.add("configs", wl.describe_cfg(cfg) + (" stripped" if strip else ""))
    r.add("lang", lang)
    r.sample = {"config": wl.describe_cfg(cfg), "stripped": strip, "lang": lang, "functions": len(prog.exported_functions()),
                "variables": len(prog.exported_variables()), "named_types": len(prog.types), "tus": prog.ntus,
                "option_sets": [" ".join(s) for s in sets], "source_digest": progen.source_digest(progen.render(prog))}
    return r


def progen_has_cxx():
    return hasattr(progen, "CXX_READY")


def decorate_symbols(prog, rng, kind="so"):
    """Aliases, weak symbols, versions on a C program (the 'versioned/aliased symbols' part of the quantifier)."""
    fns = prog.exported_functions()
    if fns and rng.random() < 0.3:
        f = rng.choice(fns)
        f.aliases.append(("%s_alias%d" % (f.name, rng.randint(1, 9)), rng.random() < 0.3))
    if fns and rng.random() < 0.15:
        rng.choice(fns).weak = True
    vs = [v for v in prog.exported_variables()]
    if vs and rng.random() < 0.2:
        v = rng.choice(vs)
        v.aliases.append(("%s_alias" % v.name, False))
    if progen.GEN2:
        # protected visibility: still exported, so no oracle changes; the attribute must survive every representation
        for x in fns + vs:
            if rng.random() < 0.1 and not x.weak:
                x.visibility = "protected"
    if fns and kind == "so" and rng.random() < 0.2:
        node = "VERS_%s_1" % prog.nonce.upper()
        for f in rng.sample(fns, max(1, len(fns) // 2)):
            f.version = (node, True)
