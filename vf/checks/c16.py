"""C16 - recorded function / variable signatures equal the source declarations."""
import os
import re
from .. import core, progen, cc, wl, run, abixml
from . import c01

PROP = "C16"
LEVEL = "exploration"
FLAVORS = ["plain"]
ENGINE = "cli-oracle"
TECHNIQUE = "model-based runtime oracle: canonical type strings of the generator's declared signatures vs the function-decl / var-decl resolved from abidw output by an expat-based reader"
LEVEL_TEXT = ("the generator knows the declared signature of every exported function and the declared type of every exported variable; "
              "both are rendered as canonical type strings (C type identity, typedef names and cv kept) and compared with the same strings "
              "resolved from the ABIXML.  Held = every exported interface of every explored program matches.")
LEVEL_NOTE = ("constructs whose DWARF rendering is compiler-defined are not generated (top-level cv on by-value parameters, array "
              "parameters); allowed normalisations: const void -> void (const volatile void -> volatile void), const reference -> reference")
ASSUMPTIONS = [LEVEL_NOTE, "comparison is up to C type identity: a cv-qualified array is an array of cv-qualified elements"]


def plan(tier):
    return {"n": 250 if tier == "quick" else 1000, "floor": 50 if tier == "quick" else 200}


def rule(tier):
    return ("case = one generated program x build configuration; evaluations = exported functions + variables compared; non-trivial = "
            "the program has >=1 compared signature that involves a typedef, a cv-qualifier, a function pointer or is variadic; "
            "distinct by source digest + configuration")


def norm(k):
    """documented normalisations applied to both sides"""
    k = k.replace("const(void)", "void")
    k = k.replace("const(volatile(void))", "volatile(void)")   # the const of a cv-qualified void is dropped the same way
    k = re.sub(r"const\((ref\([^()]*(?:\([^()]*\))*\))\)", r"\1", k)
    return k


def cv_array_typedef_feature(model_key, doc_key):
    return "const(typedef:" in model_key and "typedef:" not in doc_key.split("const(", 1)[-1][:12]


def case(ctx, i):
    rng = ctx.rng(i)
    r = core.CaseResult()
    d = ctx.casedir(i)
    lang = "cxx" if (rng.random() < 0.3 and c01.progen_has_cxx()) else "c"
    prog = progen.generate(rng, wl.gen_opts(rng, ctx.tier, lang=lang))
    cfg = wl.pick_config(rng)
    try:
        binp = cc.build(prog, d, **cfg)
    except cc.CompileError as ex:
        return r.skip("compile-error:" + str(ex)[-400:])
    xml = os.path.join(d, "out.abi")
    w = wl.abidw(ctx, binp, xml)
    if run.abnormal(w) or w.rc != 0:
        return r.skip("abidw-failed")
    doc = abixml.Doc(open(xml, "rb").read())
    what = wl.describe_cfg(cfg)
    nt = False
    fmap = {}
    for n in doc.functions:
        fmap.setdefault(n.attrs.get("mangled-name") or n.attrs.get("name"), []).append(n)
    for f in prog.exported_functions():
        nodes = fmap.get(f.name, [])
        if not nodes:
            r.count("function_not_in_document")   # C17's subject
            continue
        r.evaluations += 1
        mk = norm(f.ftype.key())
        dk = norm(doc.fn_key(nodes[0]))
        if any(w_ in mk for w_ in ("typedef:", "const(", "volatile(", "fn(", "...")) and mk.count("fn(") + mk.count("typedef:") + mk.count("const(") > 1:
            nt = True
        if mk != dk:
            r.violate("oracle:C16:function:" + diff_feature(mk, dk),
                      "function %s: declared %s but recorded %s (%s)" % (f.name, mk, dk, what))
    vmap = {}
    for n in doc.variables:
        vmap.setdefault(n.attrs.get("mangled-name") or n.attrs.get("name"), []).append(n)
    for v in prog.exported_variables():
        nodes = vmap.get(v.name, [])
        if not nodes:
            r.count("variable_not_in_document")
            continue
        r.evaluations += 1
        mk = norm(v.type.key())
        dk = norm(doc.type_key(nodes[0].attrs["type-id"]))
        if mk != dk and cfg["family"] == "gcc" and array_of_array_typedef(v.type):
            # 'typedef T t[2]; t v[1];' - gcc's DWARF describes v as ONE array type with two subranges, the typedef is
            # gone (clang keeps it): compiler-defined, not judged
            r.count("not_judged:gcc-flattens-array-of-array-typedef")
            continue
        if mk != dk and isinstance(v.type, progen.Qualified) and isinstance(progen.resolve(v.type), progen.Array):
            # a cv-qualified typedef-of-array: C type identity pushes the qualifier to the elements.
            if cfg["family"] == "gcc":
                # gcc's DWARF itself drops the typedef here (DW_TAG_const_type -> DW_TAG_array_type): compiler-defined, not judged
                r.count("not_judged:gcc-drops-typedef-of-cv-array")
                continue
            # the recorded type may be the typedef with the qualifier pushed inside: compare the
            # typedef-expanded structure and the typedef names met
            mn, dn = [], []
            mk2 = norm(progen.expanded_key(v.type, mn))
            dk2 = norm(doc.expanded_key(nodes[0].attrs["type-id"], dn))
            if mk2 == dk2 and mn == dn:
                r.count("cv_pushed_through_typedef_accepted")
                continue
        if mk != dk:
            r.violate("oracle:C16:variable:" + diff_feature(mk, dk),
                      "variable %s: declared %s but recorded %s (%s)" % (v.name, mk, dk, what))
    if r.evaluations == 0:
        return r.skip("nothing-to-compare")
    r.nontrivial = nt
    r.digest = core.digest(progen.source_digest(progen.render(prog)), cfg)
    r.add("configs", what)
    fs = prog.exported_functions()
    r.sample = {"config": what, "compared": r.evaluations,
                "example": {"name": fs[0].name, "declared": norm(fs[0].ftype.key())} if fs else None}
    return r


def array_of_array_typedef(t):
    while isinstance(t, progen.Qualified):
        t = t.to
    while isinstance(t, progen.Array):
        e = t.elem
        while isinstance(e, progen.Qualified):
            e = e.to
        if isinstance(e, progen.Typedef) and isinstance(progen.resolve(e), progen.Array):
            return True
        t = e
    return False


def diff_feature(mk, dk):
    """Small classifier of how two canonical type strings differ."""
    if mk.count(",") != dk.count(",") and mk.count("fn(") == dk.count("fn("):
        return "parameter-count"
    if ("..." in mk) != ("..." in dk):
        return "variadic"
    tm, td = re.findall(r"typedef:\w+", mk), re.findall(r"typedef:\w+", dk)
    if tm != td:
        if "const(typedef:" in mk or "volatile(typedef:" in mk:
            return "typedef-lost-under-cv"
        return "typedef-names"
    if mk.count("const(") != dk.count("const(") or mk.count("volatile(") != dk.count("volatile("):
        return "cv-qualifiers"
    return "other"
