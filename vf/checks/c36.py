"""C36 - tools report failure when their output could not be written (fault enumeration with strace injection)."""
import os
import re
import subprocess
from .. import core, wl, run, progen, cc

PROP = "C36"
LEVEL = "fault_enumeration"
FLAVORS = ["plain"]
ENGINE = "fault-injection"
TECHNIQUE = "fault enumeration: strace -P <output> -e inject=<write|writev|close>:error=<ENOSPC|EIO>:when=k for every k-th call on the output file, plus /dev/full; the tool must exit non-zero whenever a fault was injected"
LEVEL_TEXT = ("a first traced run counts the write, writev and close system calls made on the output file (selected with strace -P, so "
              "that unrelated descriptors are not touched); then for every k of each syscall and each of ENOSPC / EIO the run is repeated "
              "with that call failing.  Targets: 'abidw --out-file F', 'abidw > F', 'abilint > F' (and /dev/full for all three).  The "
              "strace log must show '(INJECTED)' for a case to count; the oracle is: fault injected => exit status != 0.")
LEVEL_NOTE = "failures are injected at system-call level (the real kernel interface), not by mocking the C++ stream; short writes that lie about the count are not injected (they do not model a real kernel)"
ASSUMPTIONS = [LEVEL_NOTE, "stdout to a pipe is not covered (strace -P cannot select a pipe); /dev/full covers the character-device case"]

ERRS = ["ENOSPC", "EIO"]
CALLS = ["write", "writev", "close"]


def plan(tier):
    return {"n": 4 if tier == "quick" else 16, "floor": 40 if tier == "quick" else 240, "samples": 3}


def rule(tier):
    return ("case = one document (generated program sized so that the output is ~5 KB .. 300 KB) x 3 targets; faults = every k-th "
            "write/writev/close on the output file x {ENOSPC, EIO} (all k enumerated; quick caps writev at 12 positions spread over the "
            "run) + /dev/full; evaluations = injected runs judged; non-trivial = runs whose strace log shows '(INJECTED)'")


def traced(ctx, argv, d, target, inject=None, stdout_to=None):
    log = os.path.join(d, "strace.log")
    cmd = ["strace", "-f", "-o", log, "-e", "trace=write,writev,close", "-P", target]
    if inject:
        cmd += ["-e", "inject=%s:error=%s:when=%d" % inject]
    cmd += argv
    env = dict(run.BASE_ENV)
    env["HOME"] = ctx.home()
    out = open(stdout_to, "wb") if stdout_to else subprocess.DEVNULL
    try:
        p = subprocess.run(cmd, cwd=d, env=env, stdout=out, stderr=subprocess.PIPE, timeout=300)
    finally:
        if stdout_to:
            out.close()
    text = open(log, errors="replace").read() if os.path.exists(log) else ""
    return p.returncode, p.stderr.decode(errors="replace"), text


def count_calls(text):
    c = {}
    for call in CALLS:
        c[call] = len(re.findall(r"^\d+ +%s\(" % call, text, re.M))
    return c


def case(ctx, i):
    rng = ctx.rng(i)
    r = core.CaseResult()
    d = ctx.casedir(i)
    sizes = [(3, 2), (10, 5), (25, 12), (45, 20)]
    nt, nf = sizes[i % len(sizes)]
    prog = progen.generate(rng, progen.GenOpts(ntypes=nt, nfuncs=nf, nvars=3, ntus=2))
    try:
        lib = cc.build(prog, d, family="gcc", dwarf=4, kind="so")
    except cc.CompileError:
        return r.skip("compile-error")
    xml = os.path.join(d, "doc.abi")
    w = wl.abidw(ctx, lib, xml)
    if run.abnormal(w) or w.rc != 0:
        return r.skip("abidw-failed")
    out = os.path.join(d, "out.abi")
    targets = [
        ("abidw--out-file", [ctx.tool("abidw"), "--out-file", out, lib], None),
        ("abidw-stdout", [ctx.tool("abidw"), lib], out),
        ("abilint-stdout", [ctx.tool("abilint"), xml], out),
    ]
    injected_runs = 0
    for tname, argv, redirect in targets:
        if os.path.exists(out):
            os.unlink(out)
        rc0, err0, text0 = traced(ctx, argv, d, out, None, redirect)
        if rc0 != 0:
            r.count("baseline_run_failed")
            continue
        counts = count_calls(text0)
        r.count("calls_on_target:" + tname, sum(counts.values()))
        for call in CALLS:
            n = counts[call]
            ks = list(range(1, n + 1))
            if ctx.tier == "quick" and len(ks) > 12:
                ks = sorted(set([1, 2, n - 1, n] + [1 + (k * (n - 1)) // 9 for k in range(10)]))
            for k in ks:
                for errn in ERRS:
                    if os.path.exists(out):
                        os.unlink(out)
                    rc, err, text = traced(ctx, argv, d, out, (call, errn, k), redirect)
                    if "(INJECTED)" not in text:
                        r.count("fault_position_not_reached")
                        continue
                    injected_runs += 1
                    r.evaluations += 1
                    r.add("fault_kinds", "%s:%s" % (call, errn))
                    if rc == 0:
                        pos = "last" if k == n else "first" if k == 1 else "middle"
                        r.violate("oracle:C36:exit0:%s:%s" % (tname, call),
                                  "%s exits 0 although %s #%d of %d on its output failed with %s" % (tname, call, k, n, errn),
                                  target=tname, call=call, k=k, n=n, errno=errn)
                    elif rc < 0 or rc > 128:
                        r.violate("oracle:C36:crash:%s" % tname, "%s dies with status %s when %s #%d fails with %s" % (tname, rc, call, k, errn))
        # /dev/full
        if redirect:
            with open("/dev/full", "wb") as fh:
                p = subprocess.run(argv, cwd=d, stdout=fh, stderr=subprocess.PIPE, env=dict(run.BASE_ENV, HOME=ctx.home()))
            rc = p.returncode
        else:
            p = subprocess.run(argv[:2] + ["/dev/full"] + argv[3:], cwd=d, stdout=subprocess.DEVNULL, stderr=subprocess.PIPE,
                               env=dict(run.BASE_ENV, HOME=ctx.home()))
            rc = p.returncode
        r.evaluations += 1
        injected_runs += 1
        r.add("fault_kinds", "dev-full")
        if rc == 0:
            r.violate("oracle:C36:exit0:%s:dev-full" % tname, "%s exits 0 although its output went to /dev/full (every write fails with ENOSPC)" % tname)
    r.nontrivial = injected_runs > 0
    r.nt_count = injected_runs
    r.digest = core.digest(progen.source_digest(progen.render(prog)))
    r.sample = {"document_bytes": os.path.getsize(xml), "injected_runs": injected_runs}
    return r


def count_nontrivial(results):
    return sum(getattr(r, "nt_count", 0) for r in results)
