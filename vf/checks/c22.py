"""C22 - a suppression that matches nothing changes nothing."""
import os
from .. import core, wl, run, mutate, pairs, progen

PROP = "C22"
LEVEL = "exploration"
FLAVORS = ["plain"]
ENGINE = "cli-oracle"
TECHNIQUE = "metamorphic runtime oracle: abidiff with and without a generated suppression file whose every section is unsatisfiable by construction; report bytes and status must be identical"
LEVEL_TEXT = ("program pairs with 1-4 mixed mutations are compared with and without '--suppr F'; every section of F is unsatisfiable for "
              "the two binaries by construction of the generator (names and symbol names built from a nonce that occurs in neither "
              "program, regular expressions anchored on that nonce, file / SONAME patterns that match neither input, type kinds restricted "
              "by a non-matching name; or 'near misses' that name a real type, function or variable of the program together with one "
              "property this entity contradicts: another type kind, the other kind of declaration, reference access in C, a symbol "
              "version or return / variable type it does not have).  The report and the exit status must be byte-identical.")
LEVEL_NOTE = "sections use documented properties only; every section carries at least one property that is unsatisfiable on its own (or, for near misses, contradicted by the one entity the section names), so the conjunction is unsatisfiable whatever the other properties are"
ASSUMPTIONS = [LEVEL_NOTE, "identifiers of a generated program all contain its 4-hex-digit nonce; the suppression nonce is different"]


def plan(tier):
    return {"n": 250 if tier == "quick" else 1000, "floor": 60 if tier == "quick" else 250}


def rule(tier):
    return ("case = one pair (1-4 mixed mutations) x one generated file of 1-6 unsatisfiable sections, default and one random report "
            "option set; evaluations = with/without comparisons; non-trivial = the baseline report is non-empty (something could have "
            "been suppressed); distinct by digest of sources + file")


def near_miss_section(rng, nonce, prog, focus=()):
    """A section that names a real type / function / variable of the program but carries one property that this very
    entity contradicts (wrong kind of type, wrong kind of declaration, reference access in C, a version it does not have ...)."""
    z = "zz%sq" % nonce
    unions = [t.name for t in prog.types if isinstance(t, progen.Record) and t.kind == "union" and t.name]
    structs = [t.name for t in prog.types if isinstance(t, progen.Record) and t.kind == "struct" and t.name]
    enums = [t.name for t in prog.types if isinstance(t, progen.Enum) and t.name]
    typedefs = [t.name for t in prog.types if isinstance(t, progen.Typedef)]
    fns = [f.name for f in prog.exported_functions() if not f.version]
    vars_ = [v.name for v in prog.exported_variables() if not v.version]
    c = []
    for u in unions:
        c += ["[suppress_type]\n  name = %s\n  type_kind = %s" % (u, k) for k in ("class", "struct", "enum", "typedef", "array")]
        c += ["[suppress_type]\n  name_regexp = ^%s$\n  type_kind = class" % u]
    for st in structs:
        c += ["[suppress_type]\n  name = %s\n  type_kind = %s" % (st, k) for k in ("union", "enum", "typedef")]
        if prog.lang == "c":
            c += ["[suppress_type]\n  name = %s\n  accessed_through = reference" % st]
    for e in enums:
        c += ["[suppress_type]\n  name = %s\n  type_kind = %s" % (e, k) for k in ("class", "struct", "union", "typedef")]
    for t in typedefs:
        c += ["[suppress_type]\n  name = %s\n  type_kind = %s" % (t, k) for k in ("class", "union", "enum")]
    for f in fns:
        c += ["[suppress_variable]\n  name = %s" % f, "[suppress_variable]\n  symbol_name = %s" % f,
              "[suppress_function]\n  name = %s\n  symbol_version = VERS_%s" % (f, z.upper()),
              "[suppress_function]\n  name = %s\n  return_type_name = %s_t" % (f, z),
              "[suppress_function]\n  symbol_name = %s\n  name = %s_f" % (f, z)]
    for v in vars_:
        c += ["[suppress_function]\n  name = %s" % v, "[suppress_function]\n  symbol_name = %s" % v,
              "[suppress_variable]\n  name = %s\n  type_name = %s_t" % (v, z),
              "[suppress_variable]\n  name = %s\n  symbol_version = VERS_%s" % (v, z.upper())]
    # half of the time a section about something that did change in this pair (there a wrong match is visible)
    hot = [x for x in c if any(("= %s\n" % n) in x + "\n" or ("= ^%s$" % n) in x for n in focus)]
    if hot and rng.random() < 0.7:
        return rng.choice(hot)
    return rng.choice(c) if c else None


def gen_section(rng, nonce, prog=None, focus=()):
    z = "zz%sq" % nonce
    if prog is not None and rng.random() < 0.5:
        sec = near_miss_section(rng, nonce, prog, focus)
        if sec:
            return sec
    kind = rng.choice(["suppress_type", "suppress_function", "suppress_variable", "suppress_file"])
    lines = ["[%s]" % kind]
    if kind == "suppress_type":
        killer = rng.choice(["name = %s_t" % z, "name_regexp = ^%s.*$" % z, "file_name_regexp = ^/%s/.*" % z, "soname_regexp = ^lib%s" % z,
                             "source_location_not_regexp = .*"])
        lines.append("  " + killer)
        for extra in rng.sample(["type_kind = struct", "type_kind = enum", "has_data_member_inserted_at = end", "accessed_through = pointer",
                                 "has_data_member_inserted_between = {0, end}", "label = verif %s" % z, "name_not_regexp = ^s_.*"], rng.randint(0, 2)):
            lines.append("  " + extra)
    elif kind in ("suppress_function", "suppress_variable"):
        killer = rng.choice(["name = %s_f" % z, "name_regexp = ^%s.*" % z, "symbol_name = %s_sym" % z, "symbol_name_regexp = ^%s" % z,
                             "symbol_version = VERS_%s" % z.upper(), "file_name_regexp = ^/%s/" % z, "soname_regexp = %s\\\\.so" % z])
        lines.append("  " + killer)
        extras = ["change_kind = all", "label = verif", "name_not_regexp = ^nothing$"]
        if kind == "suppress_function":
            extras += ["change_kind = function-subtype-change", "change_kind = added-function", "return_type_name = int", "parameter = '0 int"]
        else:
            extras += ["change_kind = variable-subtype-change", "type_name = int"]
        for extra in rng.sample(extras, rng.randint(0, 2)):
            lines.append("  " + extra)
    else:
        lines.append("  " + rng.choice(["file_name_regexp = ^/%s/.*" % z, "soname_regexp = ^lib%s\\\\.so" % z]))
    return "\n".join(lines)


def case(ctx, i):
    rng = ctx.rng(i)
    r = core.CaseResult()
    d = ctx.casedir(i)
    # union members may be mutated too here: whatever the change, the two runs must agree
    mutate.STRUCTS_ONLY = False
    try:
        pr, why = pairs.make_pair(ctx, rng, d, mutate.MIXED, nmut=rng.randint(1, 4))
    finally:
        mutate.STRUCTS_ONLY = True
    if pr is None:
        return r.skip(why)
    nonce = "%04x" % rng.randrange(16 ** 4)
    while nonce == pr.p.nonce:
        nonce = "%04x" % rng.randrange(16 ** 4)
    focus = set()
    for e in pr.expects:
        if e.type_name and ":" in e.type_name:
            focus.add(e.type_name.split(":", 1)[1])
        focus.update(e.affected[:2])
    text = "\n\n".join(gen_section(rng, nonce, pr.p, focus) for _ in range(rng.randint(1, 6))) + "\n"
    f = os.path.join(d, "none.suppr")
    open(f, "w").write(text)
    what = "+".join(e.kind for e in pr.expects) + " " + wl.describe_cfg(pr.cfg)
    nt = False
    for opts in ([], rng.choice([["--leaf-changes-only"], ["--redundant"], ["--harmless"], ["--no-default-suppression"], ["--stat"]])):
        base = wl.tool_run(ctx, "abidiff", opts + [pr.a, pr.b], d)
        with_s = wl.tool_run(ctx, "abidiff", opts + ["--suppr", f, pr.a, pr.b], d)
        r.evaluations += 1
        for res in (base, with_s):
            if run.abnormal(res):
                wl.abnormal_violation(r, res, "abidiff %s [%s]" % (" ".join(opts), what))
        if run.abnormal(base) or run.abnormal(with_s):
            continue
        nt = nt or bool(base.stdout.strip())
        if base.rc != with_s.rc or base.out != with_s.out:
            sec = sorted({l.strip("[]") for l in text.split("\n") if l.startswith("[")})
            r.violate("oracle:C22:report-changed:" + "+".join(sec),
                      "a suppression file that can match nothing changes the result: status %s -> %s, report %d -> %d bytes (%s %s)"
                      % (base.rc, with_s.rc, len(base.out), len(with_s.out), " ".join(opts), what), suppression=text, base=base.brief(), with_suppr=with_s.brief())
    r.nontrivial = nt
    r.digest = core.digest(pr.digest, text)
    r.sample = {"mutations": [e.kind for e in pr.expects], "suppression": text[:400]}
    return r
