"""C17 - every exported symbol is accounted for exactly once."""
import os
from .. import core, progen, cc, wl, run, readelf
from . import c18

PROP = "C17"
LEVEL = "exploration"
FLAVORS = ["plain"]
ENGINE = "cli-oracle"
TECHNIQUE = "differential runtime oracle: public-API corpus dump (functions, variables, alias chains, unreferenced symbols) vs readelf's public defined symbols, over programs mixing -g and non -g translation units"
LEVEL_TEXT = ("programs whose translation units are compiled partly with and partly without -g, with aliases, weak, hidden/protected and "
              "static definitions, are loaded through the public API (harness corpus_dump); with P = readelf's public defined function/"
              "variable symbols, D = symbols attached to the corpus' functions/variables (with their alias chains) and U = its "
              "unreferenced symbols, the check demands D and U disjoint, D u U = P, every interface symbol in P, and every exported "
              "definition that has debug info present in the interface.")
LEVEL_NOTE = "P is computed from .dynsym for DSOs/PIEs and .symtab for relocatable objects; SHN_ABS symbols are not data symbols"
ASSUMPTIONS = [LEVEL_NOTE, "readelf is ground truth for the symbol table; the generator's model says which definitions were compiled with -g"]


def plan(tier):
    return {"n": 200 if tier == "quick" else 800, "floor": 40 if tier == "quick" else 160}


def rule(tier):
    return ("case = one decorated multi-TU program (random subset of TUs without -g) x build configuration; evaluations = symbols "
            "classified; non-trivial = the binary has both symbols with and without debug info, or aliases; distinct by source digest "
            "+ configuration")


def case(ctx, i):
    rng = ctx.rng(i)
    r = core.CaseResult()
    d = ctx.casedir(i)
    o = wl.gen_opts(rng, ctx.tier, lang="c")
    o.ntus = rng.choice([2, 2, 3, 4])
    prog = progen.generate(rng, o)
    cfg = wl.pick_config(rng, kinds=("so", "so", "exec", "rel"))
    feats = c18.decorate(prog, rng, cfg["kind"])
    # some TUs without debug info
    for tu in range(prog.ntus):
        if rng.random() < 0.35:
            prog.tu_nodebug.add(tu)
    if len(prog.tu_nodebug) == prog.ntus:
        prog.tu_nodebug.discard(0)
    # add a few static definitions
    for k in range(rng.randint(0, 2)):
        tu = rng.randrange(prog.ntus)
        prog.statics.append((tu, "static int verif_static_%s_%d(int x) { return x + %d; }\nint (*verif_keep_%s_%d)(int) __attribute__((visibility(\"hidden\"))) = verif_static_%s_%d;"
                             % (prog.nonce, k, k, prog.nonce, k, prog.nonce, k)))
    try:
        binp = cc.build(prog, d, **cfg)
    except cc.CompileError as ex:
        return r.skip("compile-error:" + str(ex)[-400:])
    res = wl.tool_run(ctx, "corpus_dump", [binp], d)
    if run.abnormal(res):
        wl.abnormal_violation(r, res, "loading the corpus through the public API")
        return r
    if res.rc != 0 or "NOCORPUS" in res.stdout:
        return r.skip("no-corpus")
    what = wl.describe_cfg(cfg) + ", TUs without -g: %s" % sorted(prog.tu_nodebug)
    efns, evars = readelf.public_symbols(binp)
    P = {"F": {s.ident() for s in efns}, "V": {s.ident() for s in evars}}
    D = {"F": set(), "V": set()}
    U = {"F": set(), "V": set()}
    iface = {"F": {}, "V": {}}
    for line in res.stdout.splitlines():
        w = line.split(" ")
        if w[0] in ("F", "V"):
            iface[w[0]][w[1]] = w[2]
            D[w[0]].add(w[1])
            al = w[3][len("aliases="):] if len(w) > 3 else ""
            for a in al.split(","):
                if a:
                    D[w[0]].add(a)
        elif w[0] == "UF":
            U["F"].add(w[1])
        elif w[0] == "UV":
            U["V"].add(w[1])
    # close D and U under the ELF's own alias relation (same section + value): a symbol is accounted for
    # when it or one of its aliases is
    for k, esyms in (("F", efns), ("V", evars)):
        groups = {}
        for s in esyms:
            if s.ndx != "COM":
                groups.setdefault((s.ndx, s.value), set()).add(s.ident())
        for g in groups.values():
            if g & D[k]:
                D[k] |= g
            if g & U[k]:
                U[k] |= g
    for k, kn in (("F", "function"), ("V", "variable")):
        r.evaluations += len(P[k])
        both = D[k] & U[k]
        if both:
            r.violate("oracle:C17:both:%s" % kn, "%s symbols %s are attached to a declaration AND reported as not referenced by debug info (%s)" % (kn, sorted(both)[:4], what))
        neither = P[k] - (D[k] | U[k])
        if neither:
            r.violate("oracle:C17:neither:%s" % kn, "public %s symbols %s are neither attached to a declaration nor reported as unreferenced (%s)" % (kn, sorted(neither)[:4], what))
        extra = (D[k] | U[k]) - P[k]
        if extra:
            r.violate("oracle:C17:not-public:%s" % kn, "%s symbols %s are accounted for by the corpus but are not public defined symbols per readelf (%s)" % (kn, sorted(extra)[:4], what))
        for sid in iface[k]:
            if sid not in P[k]:
                r.violate("oracle:C17:interface-without-symbol:%s" % kn, "%s %s of the interface is attached to '%s' which is not a public defined symbol (%s)" % (kn, iface[k][sid], sid, what))
    # every exported definition with debug info is in the interface
    names = {"F": {sid.split("@")[0] for sid in D["F"]}, "V": {sid.split("@")[0] for sid in D["V"]}}
    mixed_dbg = False
    for f in prog.exported_functions():
        if f.visibility == "hidden":
            continue
        has_dbg = f.tu not in prog.tu_nodebug
        mixed_dbg = mixed_dbg or not has_dbg
        if has_dbg and f.name not in names["F"]:
            r.violate("oracle:C17:debug-function-missing", "exported function %s has debug info (tu%d) but is not in the corpus' interface (%s)" % (f.name, f.tu, what))
        if not has_dbg and f.name in {s.split("@")[0] for s in iface["F"]} and not f.aliases:
            r.count("nodebug_function_in_interface")
    for v in prog.exported_variables():
        if v.visibility == "hidden":
            continue
        has_dbg = v.tu not in prog.tu_nodebug
        mixed_dbg = mixed_dbg or not has_dbg
        if has_dbg and v.name not in names["V"]:
            es = [x for x in evars if x.name == v.name]
            cls = "tls" if v.tls else "common" if (es and es[0].ndx == "COM") else "plain"
            r.violate("oracle:C17:debug-variable-missing:%s:%s" % (cls, cfg["kind"]),
                      "exported variable %s has debug info (tu%d) but is not in the corpus' interface (%s)" % (v.name, v.tu, what))
    r.nontrivial = mixed_dbg or bool(feats & {"alias", "var-alias"})
    r.digest = core.digest(progen.source_digest(progen.render(prog)), cfg, sorted(prog.tu_nodebug))
    r.add("configs", wl.describe_cfg(cfg))
    for f in feats:
        r.add("features", f)
    r.count("symbols_with_decl", len(D["F"]) + len(D["V"]))
    r.count("symbols_unreferenced", len(U["F"]) + len(U["V"]))
    r.sample = {"config": what, "public_functions": len(P["F"]), "public_variables": len(P["V"]),
                "attached": len(D["F"]) + len(D["V"]), "unreferenced": len(U["F"]) + len(U["V"]), "features": sorted(feats)}
    return r
