"""C23 - function and variable suppressions hide exactly what they name."""
import os
from .. import core, wl, run, mutate, pairs, report

PROP = "C23"
LEVEL = "exploration"
FLAVORS = ["plain"]
ENGINE = "cli-oracle"
TECHNIQUE = "model-based runtime oracle: one generated [suppress_function]/[suppress_variable] section targeting one changed/added/removed interface; parsed report with the suppression must equal the parsed report without it minus that interface's entry"
LEVEL_TEXT = ("pairs with >= 3 per-interface changes on disjoint interfaces (parameter added/removed, return type changed, functions and "
              "variables added and removed) are compared with and without one suppression section that targets exactly one of them by "
              "name, name_regexp, symbol_name or symbol_name_regexp, optionally with change_kind.  With a matching (or absent) change_kind "
              "the target's entry must disappear, its section's net counter drop by one and its filtered-out counter rise by one, and "
              "every other entry and counter stay identical; with a change_kind that excludes the target's kind of change nothing may "
              "change.  A quarter of the pairs are built without debug info, so that the added/removed interfaces are ELF symbols not "
              "referenced by debug info and the symbol-level filters decide.")
LEVEL_NOTE = "changes are generated on disjoint interfaces (no shared changed type), so that hiding one entry cannot legitimately move details to another interface"
ASSUMPTIONS = [LEVEL_NOTE, "interfaces are identified by source name inside the entry text"]

SIG = ["add-param", "remove-param", "change-return-type"]
CAT = {k: mutate.BREAKING[k] for k in SIG + ["remove-function", "remove-variable"]}
CAT.update(mutate.ADDITIVE)

KIND_OF = {"add-param": ("fn", "changed", "function-subtype-change"), "remove-param": ("fn", "changed", "function-subtype-change"),
           "change-return-type": ("fn", "changed", "function-subtype-change"), "remove-function": ("fn", "removed", "deleted-function"),
           "add-function": ("fn", "added", "added-function"), "remove-variable": ("var", "removed", "deleted-variable"),
           "add-variable": ("var", "added", "added-variable")}
SYMBOL_ONLY_KINDS = ("remove-function", "add-function", "remove-variable", "add-variable")
OTHER_KINDS = {"fn": ["function-subtype-change", "deleted-function", "added-function"],
               "var": ["variable-subtype-change", "deleted-variable", "added-variable"]}


def plan(tier):
    return {"n": 250 if tier == "quick" else 1000, "floor": 60 if tier == "quick" else 250}


def rule(tier):
    return ("case = one pair with 3-6 per-interface mutations on distinct interfaces x one generated suppression targeting one of them; "
            "evaluations = report comparisons (entries + counters); non-trivial = the target has an entry in the baseline report; "
            "distinct by digest of sources + suppression")


def entries_by_section(rep):
    return {k: [e.full_text() for e in v[1]] for k, v in rep.sections.items()}


def case(ctx, i):
    rng = ctx.rng(i)
    r = core.CaseResult()
    d = ctx.casedir(i)
    # distinct interfaces: apply mutations one by one, rejecting those whose interface was already touched
    from .. import progen, cc
    touched, expects = set(), []
    p = None
    # a quarter of the cases are built without debug info: added/removed interfaces are then "symbols not referenced by debug
    # info", filtered by the symbol half of the same code (suppresses_function_symbol / suppresses_variable_symbol)
    nodebug = rng.random() < 0.25
    cat = {k: v for k, v in CAT.items() if k in SYMBOL_ONLY_KINDS} if nodebug else CAT
    for attempt in range(8):
        p = progen.generate(rng, wl.gen_opts(rng, ctx.tier, nfuncs=rng.randint(5, 10), nvars=rng.randint(2, 5)))
        q = p
        touched, expects = set(), []
        for k in range(40):
            res = mutate.apply_random(cat, q, rng)
            if not res:
                continue
            q2, e = res
            if e.affected[0] in touched:
                continue
            touched.add(e.affected[0])
            q = q2
            expects.append(e)
            if len(expects) >= rng.randint(3, 6):
                break
        if len(expects) >= 3:
            break
    if len(expects) < 3:
        return r.skip("not-enough-distinct-mutations")
    cfg = wl.pick_config(rng, kinds=("so", "so", "exec"))
    try:
        a = cc.build(p, os.path.join(d, "a"), debug=not nodebug, **cfg)
        b = cc.build(q, os.path.join(d, "b"), debug=not nodebug, **cfg)
    except cc.CompileError as ex:
        return r.skip("compile-error")
    tgt = rng.choice(expects)
    name = tgt.affected[0]
    grp, what_kind, ck = KIND_OF[tgt.kind]
    sect = "suppress_function" if grp == "fn" else "suppress_variable"
    how = rng.choice(["symbol_name", "symbol_name_regexp"] if nodebug else ["name", "name_regexp", "symbol_name", "symbol_name_regexp"])
    val = name if how in ("name", "symbol_name") else "^%s$" % name
    lines = ["[%s]" % sect, "  %s = %s" % (how, val)]
    ck_mode = rng.choice(["none", "match", "all", "exclude"])
    if ck_mode == "match":
        lines.append("  change_kind = %s" % ck)
    elif ck_mode == "all":
        lines.append("  change_kind = all")
    elif ck_mode == "exclude":
        lines.append("  change_kind = %s" % rng.choice([x for x in OTHER_KINDS[grp] if x != ck]))
    text = "\n".join(lines) + "\n"
    f = os.path.join(d, "one.suppr")
    open(f, "w").write(text)
    what = "%s via %s, change_kind %s; mutations %s; %s%s" % (tgt.kind, how, ck_mode, "+".join(e.kind for e in expects), wl.describe_cfg(cfg),
                                                              ", no debug info" if nodebug else "")
    base = wl.tool_run(ctx, "abidiff", [a, b], d)
    supp = wl.tool_run(ctx, "abidiff", ["--suppr", f, a, b], d)
    for res in (base, supp):
        if run.abnormal(res):
            wl.abnormal_violation(r, res, "abidiff [%s]" % what)
            return r
    rb, rs = report.Report(base.stdout), report.Report(supp.stdout)
    if rb.unparsed or rs.unparsed:
        return r.inconclusive("unparsed-report-line:" + (rb.unparsed + rs.unparsed)[0][:80])
    if nodebug:
        grp = "fsym" if grp == "fn" else "vsym"
    sec = "%s-%s" % (grp, what_kind)
    base_entries = rb.entries(sec)
    target_entries = [e for e in base_entries if e.mentions(name)]
    if len(target_entries) != 1:
        return r.skip("target-not-in-baseline-report")
    r.evaluations += 1
    eb, es = entries_by_section(rb), entries_by_section(rs)
    keyfeat = "%s%s:%s:%s" % (tgt.kind, "-symbol-only" if nodebug else "", how, ck_mode)
    if ck_mode == "exclude":
        if base.out != supp.out or base.rc != supp.rc:
            r.violate("oracle:C23:excluded-change-kind-still-hides:" + keyfeat,
                      "a suppression whose change_kind excludes the target's kind of change altered the report (%s)" % what,
                      suppression=text, base=base.brief(), with_suppr=supp.brief())
    else:
        expect = dict(eb)
        expect[sec] = [t for t in eb[sec] if t != target_entries[0].full_text()]
        if not expect[sec]:
            del expect[sec]
        if es != expect:
            hidden = target_entries[0].full_text() not in es.get(sec, [])
            r.violate("oracle:C23:%s:%s" % ("other-entries-changed" if hidden else "target-not-hidden", keyfeat),
                      "%s (%s)" % ("the target is hidden but other entries changed too" if hidden else "the target is still listed", what),
                      suppression=text, base=base.brief(), with_suppr=supp.brief())
        else:
            nb, fb = rb.summary[grp][what_kind]
            ns, fs = rs.summary[grp][what_kind]
            if (ns, fs) != (nb - 1, fb + 1):
                r.violate("oracle:C23:counters:" + keyfeat, "summary counter of %s went from %d (+%d filtered) to %d (+%d filtered), expected %d (+%d) (%s)"
                          % (sec, nb, fb, ns, fs, nb - 1, fb + 1, what), suppression=text, base=base.brief(), with_suppr=supp.brief())
            for g2 in rb.summary:
                if not isinstance(rb.summary[g2], dict):
                    continue
                for k2 in rb.summary[g2]:
                    if (g2, k2) != (grp, what_kind) and rb.summary[g2][k2] != rs.summary.get(g2, {}).get(k2):
                        r.violate("oracle:C23:other-counter-changed:" + keyfeat, "counter %s/%s changed from %s to %s (%s)"
                                  % (g2, k2, rb.summary[g2][k2], rs.summary.get(g2, {}).get(k2), what), suppression=text)
    r.nontrivial = True
    r.digest = core.digest(progen.source_digest(progen.render(p)), progen.source_digest(progen.render(q)), text)
    r.add("targets", keyfeat)
    r.sample = {"target": name, "mutation": tgt.kind, "suppression": text, "baseline_status": base.rc, "suppressed_status": supp.rc}
    return r
