"""C33 - reading any ABIXML input is memory-safe and never aborts."""
import os
import random
from .. import core, wl, run, progen, cc, xmlmut
from . import c18

PROP = "C33"
LEVEL = "exploration"
FLAVORS = ["asan"]
ENGINE = "hostile-input"
TECHNIQUE = "sanitizer monitoring (ASan+UBSan, hardened libstdc++, identified ABG_ASSERTs) of abidiff and abilint fed structure-aware and byte-level mutants of abidw documents; termination classifier"
LEVEL_TEXT = ("abidw documents of generated C programs (aliases, versions, bit-fields, anonymous members, function pointers) are mutated: "
              "attribute values replaced by empty / huge / negative / non-numeric / other ids, ids redirected (dangling, duplicate, "
              "self-referencing, cyclic), attributes deleted / renamed, elements deleted / duplicated / swapped / re-parented / renamed, "
              "version strings, wrong roots, byte flips, truncations.  abidiff (mutant vs original, both orders) and abilint run on the "
              "ASan+UBSan build; any signal, sanitizer report, internal assertion, uncaught exception or confirmed hang is a violation, "
              "keyed by function + condition so that each assertion site is a separate finding.")
LEVEL_NOTE = "documents come from 6 fixed-per-run generated programs; the variable under test is the mutation"
ASSUMPTIONS = [LEVEL_NOTE, "a timeout is re-run alone with a 6x budget before it is called a hang"]

NDOCS = 6


def plan(tier):
    return {"n": 160 if tier == "quick" else 1280, "floor": 40 if tier == "quick" else 320}


def rule(tier):
    return ("case = one mutant (1-3 stacked mutations) of one of %d documents, read by abidiff as first argument, as second argument, "
            "and by abilint; evaluations = tool executions monitored; non-trivial = mutant differs from the original and is not empty; "
            "distinct by mutant digest" % NDOCS)


def prepare(ctx):
    docs = []
    # a fixed directory (not the per-process run directory): the paths end up inside the inputs (file paths in ABIXML, the
    # compilation directory in DWARF) and the position-based mutations must hit the same bytes in every run
    import fcntl
    import shutil
    from .. import build
    fixed = os.path.join(build.WORK, "fixed", "C33-%s" % ctx.tier)
    os.makedirs(fixed, exist_ok=True)
    lock = open(os.path.join(fixed, ".lock"), "w")
    fcntl.flock(lock, fcntl.LOCK_EX)        # released when the check's main process exits
    ctx.shared["lock"] = lock
    base = os.path.join(fixed, "docs")
    shutil.rmtree(base, ignore_errors=True)
    seed = 500
    while len(docs) < NDOCS:
        seed += 1
        rng = random.Random(seed)
        k = len(docs)
        d = os.path.join(base, str(k))
        p = progen.generate(rng, progen.GenOpts(ntypes=9, nfuncs=5, nvars=3, ntus=2), nonce="c33%d" % k)
        c18.decorate(p, rng, "so")
        try:
            lib = cc.build(p, d, family="gcc" if k % 2 else "clang", dwarf=4 + k % 2, kind="so")
        except cc.CompileError:
            continue
        xml = os.path.join(d, "orig.abi")
        opts = [[], ["--load-all-types"], ["--annotate"], ["--type-id-style", "hash"], [], ["--no-show-locs"]][k]
        w = wl.abidw(ctx, lib, xml, opts, flavor="asan")
        if w.rc != 0:
            continue
        docs.append((xml, open(xml, "rb").read()))
    ctx.shared["docs"] = docs


def case(ctx, i):
    rng = ctx.rng(i)
    r = core.CaseResult()
    d = ctx.casedir(i)
    xml, data = ctx.shared["docs"][i % NDOCS]
    kinds = []
    m = data
    for _ in range(rng.choice([1, 1, 1, 2, 3])):
        k, m = xmlmut.mutate(rng, m)
        kinds.append(k)
    path = os.path.join(d, "mutant.abi")
    with open(path, "wb") as fh:
        fh.write(m)
    what = "+".join(kinds)
    for tool, args in (("abidiff", [path, xml]), ("abidiff", [xml, path]), ("abilint", ["--noout", path])):
        res, hang = wl.run_must_terminate(ctx, tool, args, d, flavor="asan")
        r.evaluations += 1
        if hang or run.abnormal(res):
            key = res.key
            if key.startswith("san:stack-overflow"):
                # the frame in which the guard page is hit is arbitrary inside the recursion: one key for all of them
                key = "san:stack-overflow:unbounded-recursion"
            r.violate(key, "%s on a mutant (%s): %s" % (tool, what, res.key), run=res.brief(), mutations=kinds)
    for k in kinds:
        r.add("mutation_kinds", k.split(":")[0])
    r.nontrivial = m != data and len(m) > 0
    r.digest = core.digest(m)
    r.sample = {"mutations": kinds, "document": i % NDOCS, "bytes": len(m)}
    return r
