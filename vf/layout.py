"""Compiler layout probes: the compiler itself (same compiler, same flags) says what sizeof / member
offsets / bit-field positions are; nothing is computed by this framework."""
import os
import subprocess

from . import progen, cc


def member_paths(rec, prefix=""):
    """[(path, field)] of every named data member reachable without naming a type: members of unnamed
    anonymous members are flattened (C11 anonymous members), named members of anonymous type are followed as 'm.x'."""
    out = []
    for f in rec.fields:
        if f.static:
            continue
        if isinstance(f.type, progen.Record) and f.type.name is None:
            if f.name is None:
                out.extend(member_paths(f.type, prefix))
            else:
                out.append((prefix + f.name, f))
                out.extend(member_paths(f.type, prefix + f.name + "."))
        elif f.name is not None:
            out.append((prefix + f.name, f))
    return out


def probe_source(prog, tu=None):
    """tu=None: all header-visible types; tu=k: only the types local to translation unit k (their definitions
    are repeated in the probe, since no header carries them)."""
    lang = prog.lang
    L = []
    L.append('#include "private.h"')
    if tu is not None:
        for t in prog.types:
            if getattr(t, "where", "") == "tu%d" % tu:
                L.append(progen.render_type_def(t, lang))
    L.append("#include <stdio.h>\n#include <string.h>\n#include <stddef.h>")
    L.append("""
static void verif_bits(const char *tag, const unsigned char *p, size_t n)
{
  long first = -1, count = 0; size_t i; int b;
  for (i = 0; i < n; i++)
    for (b = 0; b < 8; b++)
      if (p[i] & (1u << b)) { if (first < 0) first = (long)(i * 8 + b); count++; }
  printf("B %s %ld %ld\\n", tag, first, count);
}
""")
    L.append("int main(void)\n{")
    for t in prog.types:
        where = getattr(t, "where", "public")
        if (tu is None and where.startswith("tu")) or (tu is not None and where != "tu%d" % tu):
            continue
        if isinstance(t, progen.Record) and not t.opaque:
            spec = t.spec() if lang == "c" else t.name
            L.append('  printf("S %s %%zu\\n", sizeof(%s));' % (t.key(), spec))
            for path, f in member_paths(t):
                if f.bits is not None:
                    if f.bits == 0:
                        continue
                    L.append('  { %s verif_o; memset(&verif_o, 0, sizeof verif_o); verif_o.%s = -1; verif_bits("%s %s", (const unsigned char*)&verif_o, sizeof verif_o); }'
                             % (spec, path, t.key(), path))
                elif isinstance(f.type, progen.Array) and any(d is None for d in f.type.dims):
                    L.append('  printf("O %s %s %%zu\\n", offsetof(%s, %s));' % (t.key(), path, spec, path))
                else:
                    L.append('  printf("O %s %s %%zu\\n", __builtin_offsetof(%s, %s));' % (t.key(), path, spec, path))
                    L.append('  printf("M %s %s %%zu\\n", sizeof(((%s*)0)->%s));' % (t.key(), path, spec, path))
        elif isinstance(t, progen.Enum):
            L.append('  printf("S %s %%zu\\n", sizeof(%s));' % (t.key(), t.spec() if lang == "c" else t.name))
        elif isinstance(t, progen.Typedef):
            rt = progen.resolve(t)
            if isinstance(rt, (progen.FuncType, progen.Void)) or (isinstance(rt, progen.Record) and rt.opaque):
                continue
            L.append('  printf("S %s %%zu\\n", sizeof(%s));' % (t.key(), t.name))
    L.append("  return 0;\n}")
    return "\n".join(L) + "\n"


class Layout(object):
    def __init__(self):
        self.size = {}          # type key -> bytes
        self.off = {}           # (type key, path) -> bit offset
        self.width = {}         # (type key, path) -> bit width (bit-fields) or member size in bits

    def record(self, key):
        return {p: o for (k, p), o in self.off.items() if k == key}


def run_probe(prog, d, family, opt, extra=(), tu=None):
    """Compile and run the probe with the same compiler family / optimisation level.  -> Layout"""
    ext = "c" if prog.lang == "c" else "cc"
    sfx = "" if tu is None else "_tu%d" % tu
    src = os.path.join(d, "verif_probe%s.%s" % (sfx, ext))
    with open(src, "w") as fh:
        fh.write(probe_source(prog, tu))
    exe = os.path.join(d, "verif_probe" + sfx)
    ccx = cc.compiler_for(prog.lang, family)
    argv = [ccx, "-w", opt, "-o", exe, src] + list(extra)
    if prog.lang == "c":
        argv[1:1] = ["-std=gnu11"]
    else:
        argv[1:1] = ["-std=gnu++14"]
    r = subprocess.run(argv, cwd=d, stdout=subprocess.PIPE, stderr=subprocess.STDOUT)
    if r.returncode != 0:
        raise cc.CompileError("probe: " + r.stdout.decode(errors="replace")[-1500:])
    r = subprocess.run([exe], cwd=d, stdout=subprocess.PIPE, stderr=subprocess.PIPE, timeout=30)
    if r.returncode != 0:
        raise cc.CompileError("probe run failed rc=%s" % r.returncode)
    lay = Layout()
    for line in r.stdout.decode().splitlines():
        w = line.split()
        if w[0] == "S":
            lay.size[w[1]] = int(w[2])
        elif w[0] == "O":
            lay.off[(w[1], w[2])] = int(w[3]) * 8
        elif w[0] == "M":
            lay.width[(w[1], w[2])] = int(w[3]) * 8
        elif w[0] == "B":
            lay.off[(w[1], w[2])] = int(w[3])
            lay.width[(w[1], w[2])] = int(w[4])
    return lay
