"""Targeted corruptor of ELF64 little-endian files (own minimal parser; no elfutils / binutils involved)."""
import struct

SHDR = struct.Struct("<IIQQQQIIQQ")     # name type flags addr offset size link info addralign entsize
SYM = struct.Struct("<IBBHQQ")          # name info other shndx value size


class Elf(object):
    def __init__(self, data):
        self.data = bytearray(data)
        d = self.data
        if d[:4] != b"\x7fELF" or d[4] != 2 or d[5] != 1:
            raise ValueError("not ELF64 LE")
        self.shoff, = struct.unpack_from("<Q", d, 0x28)
        self.shentsize, self.shnum, self.shstrndx = struct.unpack_from("<HHH", d, 0x3A)
        self.sections = []
        for i in range(self.shnum):
            off = self.shoff + i * self.shentsize
            f = SHDR.unpack_from(d, off)
            self.sections.append({"idx": i, "hdr_off": off, "name_off": f[0], "type": f[1], "flags": f[2], "addr": f[3], "offset": f[4],
                                  "size": f[5], "link": f[6], "info": f[7], "align": f[8], "entsize": f[9]})
        strtab = self.sections[self.shstrndx] if self.shstrndx < len(self.sections) else None
        for s in self.sections:
            s["name"] = self._str(strtab, s["name_off"]) if strtab else ""

    def _str(self, strtab, off):
        b = strtab["offset"] + off
        e = self.data.find(b"\0", b)
        return self.data[b:e].decode("latin-1") if e >= 0 else ""

    def by_name(self, name):
        for s in self.sections:
            if s["name"] == name:
                return s
        return None

    def set_hdr_field(self, sec, field, value):
        idx = ["name_off", "type", "flags", "addr", "offset", "size", "link", "info", "align", "entsize"].index(field)
        vals = list(SHDR.unpack_from(self.data, sec["hdr_off"]))
        vals[idx] = value & ((1 << (32 if idx in (0, 1, 6, 7) else 64)) - 1)
        SHDR.pack_into(self.data, sec["hdr_off"], *vals)

    def bytes(self):
        return bytes(self.data)


INTERESTING = [0, 1, 2, 3, 7, 8, 0x7f, 0x80, 0xff, 0x100, 0xffff, 0x10000, 0x7fffffff, 0x80000000, 0xffffffff, 0x100000000,
               0x7fffffffffffffff, 0xffffffffffffffff]


def mutate(rng, data):
    """-> (kind, bytes).  One targeted corruption."""
    try:
        e = Elf(data)
    except (ValueError, struct.error, OverflowError, IndexError):
        return "bytes", _flip(rng, data, 4)
    ops = ["sh-field", "sh-field", "sh-field", "sym-field", "sym-field", "hash", "gnu-hash", "versym", "verdef", "verneed", "dynamic",
           "dwarf-info", "dwarf-abbrev", "dwarf-str", "dwarf-line", "ehdr", "bytes", "truncate", "strtab", "dwarf-info", "dwarf-info"]
    op = rng.choice(ops)
    d = e.data
    secs = [s for s in e.sections if s["type"] != 0]
    if op == "sh-field" and secs:
        s = rng.choice(secs)
        field = rng.choice(["size", "entsize", "link", "info", "offset", "type", "name_off", "addr", "flags"])
        val = rng.choice(INTERESTING + [s[field] + 1, max(0, s[field] - 1), s[field] * 2, len(d), len(d) - s.get("offset", 0) + 1])
        e.set_hdr_field(s, field, val)
        return "sh-%s:%s" % (field, s["name"] or "?"), e.bytes()
    if op == "sym-field":
        tabs = [s for s in e.sections if s["name"] in (".dynsym", ".symtab") and s["size"] >= 24]
        if tabs:
            t = rng.choice(tabs)
            n = t["size"] // 24
            k = rng.randrange(n)
            off = t["offset"] + 24 * k
            vals = list(SYM.unpack_from(d, off))
            f = rng.randrange(6)
            names = ["st_name", "st_info", "st_other", "st_shndx", "st_value", "st_size"]
            width = [32, 8, 8, 16, 64, 64][f]
            vals[f] = rng.choice(INTERESTING + [rng.randrange(1 << width)]) & ((1 << width) - 1)
            SYM.pack_into(d, off, *vals)
            return "sym-%s:%s" % (names[f], t["name"]), e.bytes()
    if op in ("hash", "gnu-hash", "versym", "verdef", "verneed", "dynamic", "strtab", "dwarf-info", "dwarf-abbrev", "dwarf-str", "dwarf-line"):
        name = {"hash": ".hash", "gnu-hash": ".gnu.hash", "versym": ".gnu.version", "verdef": ".gnu.version_d", "verneed": ".gnu.version_r",
                "dynamic": ".dynamic", "strtab": rng.choice([".dynstr", ".strtab", ".shstrtab"]), "dwarf-info": ".debug_info",
                "dwarf-abbrev": ".debug_abbrev", "dwarf-str": rng.choice([".debug_str", ".debug_line_str", ".debug_str_offsets"]),
                "dwarf-line": ".debug_line"}[op]
        s = e.by_name(name)
        if s is not None and s["size"] > 0 and s["offset"] + s["size"] <= len(d):
            if op in ("hash", "gnu-hash", "verdef", "verneed", "dynamic", "versym"):
                # word-level corruption: header words first, then anywhere
                width = 2 if op == "versym" else (8 if op == "dynamic" else 4)
                nwords = s["size"] // width
                k = rng.randrange(min(nwords, 8)) if rng.random() < 0.5 else rng.randrange(nwords)
                val = rng.choice(INTERESTING) & ((1 << (8 * width)) - 1)
                d[s["offset"] + k * width: s["offset"] + (k + 1) * width] = val.to_bytes(width, "little")
                return "%s-word%s" % (op, "-hdr" if k < 8 else ""), e.bytes()
            n = rng.choice([1, 1, 2, 4])
            for _ in range(n):
                p = s["offset"] + rng.randrange(s["size"])
                d[p] = rng.choice([0, 1, 0x7f, 0x80, 0xff, rng.randrange(256)])
            return op, e.bytes()
    if op == "ehdr":
        field = rng.choice([(0x28, 8, "e_shoff"), (0x3A, 2, "e_shentsize"), (0x3C, 2, "e_shnum"), (0x3E, 2, "e_shstrndx"), (0x20, 8, "e_phoff"),
                            (0x38, 2, "e_phnum"), (0x10, 2, "e_type"), (0x12, 2, "e_machine")])
        val = rng.choice(INTERESTING) & ((1 << (8 * field[1])) - 1)
        d[field[0]:field[0] + field[1]] = val.to_bytes(field[1], "little")
        return "ehdr-" + field[2], e.bytes()
    if op == "truncate":
        return "truncate", bytes(d[:rng.randrange(64, len(d))])
    return "bytes", _flip(rng, bytes(d), rng.choice([1, 2, 8]))


def _flip(rng, data, n):
    b = bytearray(data)
    for _ in range(n):
        p = rng.randrange(len(b))
        b[p] = rng.randrange(256)
    return bytes(b)
