"""Random C / C++ program generator with an explicit model.

A Program is a model (types, functions, variables, translation units); sources
are rendered from it only at the end, so mutators can transform the *model*
and know the ABI effect by construction.
"""
import copy
import hashlib

# ------------------------------------------------------------------ types


import os as _os
# generator v2 = C++ programs + reference cycles through several records (switched on per default once soaked)
GEN2 = _os.environ.get("VERIF_CXX", "1") == "1"
# construct families (with reader defects of their own) present in the program generated last in this process
LAST_FEATURES = set()

class Type(object):
    named = False

    def children(self):
        return []


class Builtin(Type):
    def __init__(self, name):
        self.name = name

    def spec(self):
        return self.name

    def key(self):
        return CANON_BUILTIN.get(self.name, self.name)


BUILTINS = ["char", "signed char", "unsigned char", "short", "unsigned short", "int", "unsigned int",
            "long", "unsigned long", "long long", "unsigned long long", "float", "double", "_Bool"]
# name -> the name abidw uses (DWARF base type names as emitted by gcc/clang)
CANON_BUILTIN = {
    "short": "short int", "unsigned short": "unsigned short int", "long": "long int",
    "unsigned long": "unsigned long int", "long long": "long long int",
    "unsigned long long": "unsigned long long int", "_Bool": "bool",
    "short unsigned int": "unsigned short int", "long unsigned int": "unsigned long int",
    "long long unsigned int": "unsigned long long int", "short int": "short int",
}
INT_BUILTINS = [b for b in BUILTINS if b not in ("float", "double")]


class Void(Type):
    def spec(self):
        return "void"

    def key(self):
        return "void"


class Pointer(Type):
    def __init__(self, to):
        self.to = to

    def children(self):
        return [self.to]

    def key(self):
        return "ptr(%s)" % self.to.key()


class Reference(Type):
    """C++ lvalue reference."""
    def __init__(self, to):
        self.to = to

    def children(self):
        return [self.to]

    def key(self):
        return "ref(%s)" % self.to.key()


class Qualified(Type):
    def __init__(self, to, const=True, volatile=False):
        self.to, self.const, self.volatile = to, const, volatile

    def children(self):
        return [self.to]

    def key(self):
        return qual_key(self.to.key(), self.const, self.volatile)


def qual_key(k, const, volatile):
    """C type identity: a qualified array is an array of qualified elements."""
    if k.startswith("array["):
        i = k.index("](")
        return k[:i + 2] + qual_key(k[i + 2:-1], const, volatile) + ")"
    q = []
    if const:
        q.append("const")
    if volatile:
        q.append("volatile")
    # merge with already-qualified
    while k.startswith("const(") or k.startswith("volatile("):
        w = k[:k.index("(")]
        if w not in q:
            q.append(w)
        k = k[len(w) + 1:-1]
    for w in sorted(q, reverse=True):   # volatile inside, const outside: const(volatile(T))
        k = "%s(%s)" % (w, k)
    return k


class Array(Type):
    def __init__(self, elem, dims):
        self.elem, self.dims = elem, list(dims)

    def children(self):
        return [self.elem]

    def key(self):
        k = self.elem.key()
        for d in reversed(self.dims):
            k = "array[%s](%s)" % (d if d is not None else "", k)
        return k


class FuncType(Type):
    def __init__(self, ret, params, variadic=False):
        self.ret, self.params, self.variadic = ret, list(params), variadic

    def children(self):
        return [self.ret] + self.params

    def key(self):
        return "fn(%s;%s%s)" % (self.ret.key(), ",".join(p.key() for p in self.params),
                                ";..." if self.variadic else "")


class Typedef(Type):
    named = True

    def __init__(self, name, to):
        self.name, self.to = name, to
        self.where = "public"

    def children(self):
        return [self.to]

    def spec(self):
        return self.name

    def key(self):
        return "typedef:" + self.name


class Enum(Type):
    named = True

    def __init__(self, name, enumerators):
        self.name, self.enumerators = name, list(enumerators)
        self.where = "public"

    def spec(self):
        return "enum " + self.name

    def key(self):
        return "enum:" + (self.name or "<anon>")


class Field(object):
    def __init__(self, name, type, bits=None, access=None, static=False):
        self.name, self.type, self.bits, self.access, self.static = name, type, bits, access, static


class Record(Type):
    named = True

    def __init__(self, kind, name, fields, attrs=()):
        self.kind, self.name, self.fields, self.attrs = kind, name, list(fields), tuple(attrs)
        self.where = "public"       # public | private | tu<N>
        self.opaque = False         # only ever forward-declared
        self.bases = []             # C++: [(Record, access, virtual)]
        self.methods = []           # C++: Method
        self.is_class = False

    def children(self):
        return [f.type for f in self.fields] + [b[0] for b in self.bases]

    def spec(self):
        if self.name is None:
            raise ValueError("anonymous record has no specifier")
        return "%s %s" % (self.kind, self.name)

    def key(self):
        return "%s:%s" % ("struct" if self.kind == "class" else self.kind, self.name)


class Method(object):
    def __init__(self, name, ftype, pnames, virtual=False, access="public", static=False, inline=False):
        self.name, self.ftype, self.pnames = name, ftype, pnames
        self.virtual, self.access, self.static, self.inline = virtual, access, static, inline


# ------------------------------------------------------------------ declarators

def cdecl(t, name, lang="c"):
    """Render declaration of `name` with type t (C declarator syntax)."""
    return _decl(t, name or "", lang).strip()


def _decl(t, inner, lang):
    if isinstance(t, Builtin):
        n = t.name
        if lang == "cxx" and n == "_Bool":
            n = "bool"
        return ("%s %s" % (n, inner)).rstrip()
    if isinstance(t, Void):
        return ("void %s" % inner).rstrip()
    if isinstance(t, (Typedef,)):
        return ("%s %s" % (t.name, inner)).rstrip()
    if isinstance(t, Enum):
        if t.name is None:
            return ("enum { %s } %s" % (", ".join("%s = %s" % (n, _lit(v)) for n, v in t.enumerators), inner)).rstrip()
        return ("%s %s" % (t.spec(), inner)).rstrip()
    if isinstance(t, Record):
        if t.name is None:
            # anonymous aggregate defined in place (behind a pointer, a qualifier, as an array element ...)
            return ("%s {\n%s\n  }%s %s" % (t.kind, _render_record_body(t, lang, "    "), _attrs(t), inner)).rstrip()
        if lang == "cxx":
            # '::' avoids the injected-class-name of a privately inherited base
            return ("::%s %s" % (t.name, inner)).rstrip()
        return ("%s %s" % (t.spec(), inner)).rstrip()
    if isinstance(t, Qualified):
        q = " ".join(w for w, on in (("const", t.const), ("volatile", t.volatile)) if on)
        if isinstance(t.to, (Pointer,)):
            return _decl(t.to.to, _wrap_ptr(t.to.to, "* %s %s" % (q, inner)), lang)
        if isinstance(t.to, (Array, FuncType)):
            raise ValueError("qualified array/function must go through a typedef")
        return "%s %s" % (q, _decl(t.to, inner, lang))
    if isinstance(t, Pointer):
        return _decl(t.to, _wrap_ptr(t.to, "*" + inner), lang)
    if isinstance(t, Reference):
        return _decl(t.to, _wrap_ptr(t.to, "&" + inner), lang)
    if isinstance(t, Array):
        dims = "".join("[%s]" % ("" if d is None else d) for d in t.dims)
        return _decl(t.elem, inner + dims, lang)
    if isinstance(t, FuncType):
        ps = [cdecl(p, "", lang) for p in t.params]
        if t.variadic:
            ps.append("...")
        if not ps:
            ps = ["void"] if lang == "c" else []
        return _decl(t.ret, "%s(%s)" % (inner, ", ".join(ps)), lang)
    raise TypeError(t)


def _wrap_ptr(to, s):
    if isinstance(to, (Array, FuncType)):
        return "(%s)" % s
    return s


# ------------------------------------------------------------------ program


class Function(object):
    def __init__(self, name, ftype, pnames, tu=0, linkage="exported"):
        self.name, self.ftype, self.pnames, self.tu, self.linkage = name, ftype, list(pnames), tu, linkage
        self.body_seed = 0
        self.aliases = []           # [(alias name, weak?)]
        self.weak = False
        self.visibility = None      # None | hidden | protected
        self.version = None         # (node, is_default)
        self.old_versions = []      # functions with a default version: further, non-default version nodes of the same name
        self.debug = True           # False: lives in a TU compiled without -g
        self.ifunc = False


class Variable(object):
    def __init__(self, name, type, tu=0, linkage="exported"):
        self.name, self.type, self.tu, self.linkage = name, type, tu, linkage
        self.tls = False
        self.common = False
        self.aliases = []
        self.weak = False
        self.visibility = None
        self.version = None
        self.debug = True
        self.init_seed = 0


class Program(object):
    def __init__(self, lang="c", nonce="x"):
        self.lang = lang
        self.nonce = nonce
        self.types = []         # named types in definition order
        self.functions = []
        self.variables = []
        self.ntus = 1
        self.statics = []       # [(tu, text)] extra static definitions (neutral edits)
        self.prelude = {}       # tu -> number of blank/comment lines before content
        self.order_seed = 0     # permutes definition order inside TUs
        self.soname = None
        self.tu_nodebug = set()     # TUs compiled without -g
        self.features = set()       # construct families present (see LAST_FEATURES)

    def clone(self):
        return copy.deepcopy(self)

    # ---- queries
    def exported_functions(self):
        return [f for f in self.functions if f.linkage == "exported"]

    def exported_variables(self):
        return [v for v in self.variables if v.linkage == "exported"]

    def find_type(self, name):
        for t in self.types:
            if getattr(t, "name", None) == name:
                return t
        return None

    def reach(self, root, through_opaque=False, through_methods=True):
        """Named types reachable from type `root` (following everything; the signatures of member functions only
        with through_methods)."""
        seen, out, todo = set(), [], [root]
        while todo:
            t = todo.pop()
            if id(t) in seen:
                continue
            seen.add(id(t))
            if t.named and getattr(t, "name", None):
                out.append(t)
            if isinstance(t, Record) and t.opaque and not through_opaque:
                continue
            todo.extend(t.children())
            if isinstance(t, Record) and through_methods:
                for m in t.methods:
                    todo.append(m.ftype)
        return out

    def interface_types(self, iface):
        t = iface.ftype if isinstance(iface, Function) else iface.type
        return self.reach(t)

    def users_of(self, typ):
        """Exported interfaces from which `typ` is reachable."""
        out = []
        # (data members, bases, parameters: not the signatures of member functions of the classes met on the way -
        # a change reachable only through those is not certain to be attributed to the using interface)
        for i in self.exported_functions() + self.exported_variables():
            root = i.ftype if isinstance(i, Function) else i.type
            if any(t is typ for t in self.reach(root, through_methods=False)):
                out.append(i)
        return out


# ------------------------------------------------------------------ rendering

def _render_record_body(rec, lang, indent="  "):
    lines = []
    cur_access = None
    for f in rec.fields:
        pre = ""
        if lang == "cxx" and f.access and f.access != cur_access:
            lines.append("%s:" % f.access)
            cur_access = f.access
        if f.static:
            pre = "static "
        if isinstance(f.type, Record) and f.type.name is None:
            # anonymous struct/union member (possibly named field of anonymous type)
            body = _render_record_body(f.type, lang, indent + "  ")
            attrs = _attrs(f.type)
            lines.append("%s%s {\n%s\n%s}%s %s;" % (indent, f.type.kind, body, indent, attrs, f.name or ""))
            continue
        if f.bits is not None:
            if f.name is None:
                lines.append("%s%s : %d;" % (indent, cdecl(f.type, "", lang), f.bits))
            else:
                lines.append("%s%s%s : %d;" % (indent, pre, cdecl(f.type, f.name, lang), f.bits))
        else:
            lines.append("%s%s%s;" % (indent, pre, cdecl(f.type, f.name, lang)))
    if lang == "cxx":
        for m in rec.methods:
            if m.access != cur_access:
                lines.append("%s:" % m.access)
                cur_access = m.access
            ps = ", ".join(cdecl(p, n, lang) for p, n in zip(m.ftype.params, m.pnames))
            head = "%s%s%s" % ("virtual " if m.virtual else "", "static " if m.static else "",
                               cdecl(m.ftype.ret, "%s(%s)" % (m.name, ps), lang))
            if m.inline:
                lines.append("%s%s { %s }" % (indent, head, _ret_stmt(m.ftype.ret, lang)))
            else:
                lines.append("%s%s;" % (indent, head))
    return "\n".join(lines)


def _attrs(rec):
    a = []
    for x in rec.attrs:
        if x == "packed":
            a.append("packed")
        elif isinstance(x, tuple) and x[0] == "aligned":
            a.append("aligned(%d)" % x[1])
    return " __attribute__((%s))" % ", ".join(a) if a else ""


def render_type_def(t, lang):
    if isinstance(t, Typedef):
        return "typedef %s;" % cdecl(t.to, t.name, lang)
    if isinstance(t, Enum):
        return "enum %s {\n%s\n};" % (t.name, ",\n".join("  %s = %s" % (n, _lit(v)) for n, v in t.enumerators))
    if isinstance(t, Record):
        bases = ""
        if lang == "cxx" and t.bases:
            bases = " : " + ", ".join("%s %s%s" % (acc, "virtual " if virt else "", b.name) for b, acc, virt in t.bases)
        return "%s %s%s {\n%s\n}%s;" % (t.kind, t.name, bases, _render_record_body(t, lang), _attrs(t))
    raise TypeError(t)


def _lit(v):
    if v == -2 ** 63:
        return "(-9223372036854775807LL - 1)"
    if v == -2 ** 31:
        return "(-2147483647 - 1)"
    if v >= 2 ** 31 or v < -2 ** 31:
        return "%dLL" % v
    return str(v)


def render_fwd(t, lang):
    if isinstance(t, Record):
        return "%s %s;" % (t.kind, t.name)
    return None


def _ret_stmt(ret, lang):
    if isinstance(ret, Void):
        return "return;"
    if isinstance(ret, (Builtin, Enum, Pointer)) or (isinstance(ret, Typedef) and _is_scalar(ret)):
        return "return (%s)0;" % cdecl(ret, "", lang)
    if isinstance(ret, Reference):
        return "static %s; return verif_r;" % cdecl(ret.to, "verif_r", lang)
    return "%s; __builtin_memset((void*)&verif_r, 0, sizeof verif_r); return verif_r;" % cdecl(strip_cv(ret), "verif_r", lang)


def expanded_key(t, names=None):
    """key() with typedefs expanded (down to records / enums / function types); typedef names met are collected."""
    if isinstance(t, Typedef):
        if names is not None:
            names.append(t.name)
        return expanded_key(t.to, names)
    if isinstance(t, Pointer):
        return "ptr(%s)" % expanded_key(t.to, names)
    if isinstance(t, Qualified):
        return qual_key(expanded_key(t.to, names), t.const, t.volatile)
    if isinstance(t, Array):
        k = expanded_key(t.elem, names)
        for d in reversed(t.dims):
            k = "array[%s](%s)" % (d if d is not None else "", k)
        return k
    return t.key()


def strip_cv(t):
    while isinstance(t, Qualified):
        t = t.to
    return t


def _is_scalar(t):
    while isinstance(t, (Typedef, Qualified)):
        t = t.to
    return isinstance(t, (Builtin, Enum, Pointer))


def resolve(t):
    while isinstance(t, (Typedef, Qualified)):
        t = t.to
    return t


def _body(fn, lang):
    seed = fn.body_seed
    lines = []
    for n in fn.pnames:
        lines.append("  (void)%s;" % n)
    if seed:
        lines.append("  volatile int verif_local%d = %d;" % (seed % 7, seed))
        lines.append("  (void)verif_local%d;" % (seed % 7))
    lines.append("  " + _ret_stmt(fn.ftype.ret, lang))
    return "\n".join(lines)


def fn_proto(fn, lang, name=None):
    ps = [cdecl(p, n, lang) for p, n in zip(fn.ftype.params, fn.pnames)]
    if fn.ftype.variadic:
        ps.append("...")
    if not ps:
        ps = ["void"] if lang == "c" else []
    return cdecl(fn.ftype.ret, "%s(%s)" % (name or fn.name, ", ".join(ps)), lang)


def _var_attrs(v):
    a = []
    if v.weak:
        a.append("weak")
    if v.visibility:
        a.append('visibility("%s")' % v.visibility)
    return " __attribute__((%s))" % ", ".join(a) if a else ""


def render(prog):
    """-> {filename: text}.  Files: public.h, private.h, tu<N>.c|.cc (+ version script if needed)."""
    lang = prog.lang
    ext = "c" if lang == "c" else "cc"
    files = {}
    pub, priv = [], []
    local = {i: [] for i in range(prog.ntus)}
    for t in prog.types:
        if isinstance(t, Record) and getattr(t, "fwd_early", False):
            pub.append(render_fwd(t, lang))
    for t in prog.types:
        if isinstance(t, Record) and t.opaque:
            pub.append(render_fwd(t, lang))
            continue
        where = getattr(t, "where", "public")
        text = render_type_def(t, lang)
        if where == "public":
            pub.append(text)
        elif where == "private":
            # declared (forward) in the public header when it is a record
            if isinstance(t, Record):
                pub.append(render_fwd(t, lang))
            priv.append(text)
        else:
            tu = int(where[2:])
            if isinstance(t, Record):
                pub.append(render_fwd(t, lang))
            local[tu].append(text)
    guard = "VERIF_%s_PUBLIC_H" % prog.nonce.upper()
    protos = []
    for f in prog.functions:
        if f.linkage != "static":
            protos.append("extern %s;" % fn_proto(f, lang))
            if f.version and not f.version[1]:
                protos.append("extern %s;" % fn_proto(f, lang, f.name + "__v"))
    for v in prog.variables:
        if v.linkage != "static":
            protos.append("extern %s%s;" % ("__thread " if v.tls else "", cdecl(v.type, v.name, lang)))
    pre = ""
    if lang == "cxx":
        pre = ""
    files["public.h"] = "#ifndef %s\n#define %s\n%s%s\n#endif\n" % (guard, guard, pre, "\n\n".join(pub))
    files["private.h"] = "#ifndef %s_PRIV\n#define %s_PRIV\n#include \"public.h\"\n%s\n%s\n#endif\n" % (
        guard, guard, "\n\n".join(priv), "\n".join(protos))
    for tu in range(prog.ntus):
        parts = []
        parts.append("\n" * prog.prelude.get(tu, 0) + '#include "private.h"')
        parts.extend(local[tu])
        defs = []
        for tuix, text in prog.statics:
            if tuix == tu:
                defs.append(text)
        for v in prog.variables:
            if v.tu != tu:
                continue
            st = "static " if v.linkage == "static" else ""
            init = ""
            if v.common:
                init = ""
            elif _is_scalar(v.type) and not isinstance(resolve(v.type), Pointer):
                init = " = (%s)%d" % (cdecl(strip_cv(v.type), "", lang), 1 + v.init_seed % 100)
            elif isinstance(v.type, Qualified) and v.type.const and lang == "cxx":
                init = " = {}"
            ex = "extern " if (lang == "cxx" and isinstance(v.type, Qualified) and v.type.const and not st) else ""
            if ex:
                defs.append("%s%s%s;" % (ex, "__thread " if v.tls else "", cdecl(v.type, v.name, lang)))
            defs.append("%s%s%s%s%s;" % (st, "__thread " if v.tls else "", cdecl(v.type, v.name, lang), _var_attrs(v), init))
            for an, weak in v.aliases:
                defs.append("extern %s __attribute__((alias(\"%s\")%s));" % (cdecl(v.type, an, lang), v.name, ", weak" if weak else ""))
        for f in prog.functions:
            if f.tu != tu:
                continue
            st = "static " if f.linkage == "static" else ""
            attrs = []
            if f.weak:
                attrs.append("weak")
            if f.visibility:
                attrs.append('visibility("%s")' % f.visibility)
            a = "__attribute__((%s)) " % ", ".join(attrs) if attrs else ""
            defname = f.name
            if f.version and not f.version[1]:
                # non-default version: the definition lives under an implementation name made
                # local by the version script, and is exported as name@NODE only
                defname = f.name + "__v"
            elif f.version and f.version[1] and getattr(f, "old_versions", []):
                # several versions of one name: every implementation lives under its own local name
                defname = f.name + "__n"
            defs.append("%s%s%s\n{\n%s\n}" % (st, a, fn_proto(f, lang, defname), _body(f, lang)))
            for an, weak in (f.aliases if lang == "c" else []):
                defs.append("extern __typeof__(%s) %s __attribute__((alias(\"%s\")%s));" % (defname, an, defname, ", weak" if weak else ""))
            if f.version and not f.version[1]:
                defs.append('__asm__(".symver %s,%s@%s");' % (defname, f.name, f.version[0]))
            if f.version and f.version[1] and getattr(f, "old_versions", []):
                defs.append('__asm__(".symver %s,%s@@%s");' % (defname, f.name, f.version[0]))
            for k, node in enumerate(getattr(f, "old_versions", []) if (f.version and f.version[1]) else []):
                # an older implementation kept for binary compatibility: name@NODE next to the default name@@NODE'
                defs.append("%s\n{\n%s\n}" % (fn_proto(f, lang, "%s__o%d" % (f.name, k)), _body(f, lang)))
                defs.append('__asm__(".symver %s__o%d,%s@%s");' % (f.name, k, f.name, node))
        if lang == "cxx" and tu == 0:
            for t in prog.types:
                if not isinstance(t, Record) or t.opaque:
                    continue
                for f_ in t.fields:
                    if f_.static:
                        defs.append("%s;" % cdecl(f_.type, "%s::%s" % (t.name, f_.name), lang))
                for m in t.methods:
                    if m.inline:
                        continue
                    ps = ", ".join(cdecl(p_, n_, lang) for p_, n_ in zip(m.ftype.params, m.pnames))
                    defs.append("%s\n{\n  %s\n}" % (cdecl(m.ftype.ret, "%s::%s(%s)" % (t.name, m.name, ps), lang),
                                                     _ret_stmt(m.ftype.ret, lang)))
        # deterministic permutation of definitions (neutral edit "reorder definitions")
        if prog.order_seed:
            import random
            rr = random.Random(prog.order_seed * 1000 + tu)
            # keep alias / symver statements right after their target: group them
            groups, cur = [], []
            for d in defs:
                if d.startswith("extern __typeof__") or d.startswith("__asm__") or (d.startswith("extern ") and "alias(" in d):
                    cur.append(d)
                else:
                    if cur:
                        groups.append(cur)
                    cur = [d]
            if cur:
                groups.append(cur)
            rr.shuffle(groups)
            defs = [d for g in groups for d in g]
        parts.extend(defs)
        files["tu%d.%s" % (tu, ext)] = "\n\n".join(parts) + "\n"
    olds = [(node, x.name) for x in prog.functions if x.version and x.version[1] for node in getattr(x, "old_versions", [])]
    nodes = sorted({x.version[0] for x in prog.functions + prog.variables if x.version} | {n for n, _x in olds})
    if nodes:
        vs = []
        prev = None
        for n in nodes:
            names = [x.name for x in prog.functions + prog.variables if x.version and x.version[0] == n] + [nm for nd, nm in olds if nd == n]
            vs.append("%s {\n  global: %s;%s\n}%s;" % (n, "; ".join(sorted(set(names))),
                                                       "\n  local: *__v; *__n; *__o[0-9];" if prev is None else "", " " + prev if prev else ""))
            prev = n
        files["version.map"] = "\n".join(vs) + "\n"
    return files


def source_digest(files):
    h = hashlib.sha256()
    for k in sorted(files):
        h.update(k.encode())
        h.update(files[k].encode())
    return h.hexdigest()[:16]


# ------------------------------------------------------------------ generation


class GenOpts(object):
    def __init__(self, **kw):
        self.lang = "c"
        self.ntypes = 8
        self.nfuncs = 5
        self.nvars = 2
        self.ntus = 1
        self.bitfields = True
        self.anon_members = True
        self.func_ptrs = True
        self.arrays = True
        self.unions = True
        self.enums = True
        self.attrs = True           # packed / aligned
        self.recursive = True
        self.opaque = True
        self.variadic = True
        self.private_types = False  # spread types over public.h / private.h / tu-local
        self.top_cv_params = False
        self.flex_array = True
        self.cxx_classes = True
        self.mutual = GEN2          # reference cycles through several records (back edges to records defined later)
        self.anon_compound = GEN2   # pointers to / const / arrays of anonymous aggregates, anonymous enums, as members
        self.__dict__.update(kw)


class Gen(object):
    def __init__(self, rng, opts, nonce):
        self.r, self.o, self.nonce = rng, opts, nonce
        self.p = Program(opts.lang, nonce)
        self.p.ntus = opts.ntus
        self.k = 0
        self.anon_on = False

    def name(self, prefix):
        self.k += 1
        return "%s_%s_%d" % (prefix, self.nonce, self.k)

    # ---- type expression over existing named types
    def scalar(self):
        return Builtin(self.r.choice(BUILTINS))

    def pick_named(self, kinds=None, complete=False):
        c = [t for t in self.p.types if (kinds is None or isinstance(t, kinds))]
        if complete:
            c = [t for t in c if not (isinstance(t, Record) and t.opaque)]
        return self.r.choice(c) if c else None

    def value_type(self, depth=0, allow_record=True):
        """A complete object type usable for a field / variable / by-value parameter."""
        r = self.r
        x = r.random()
        if x < 0.30 or depth > 2:
            return self.scalar()
        if x < 0.50:
            return self.pointer_type(depth + 1)
        if x < 0.70 and allow_record:
            t = self.pick_named((Record, Enum, Typedef), complete=True)
            if t is not None and not (isinstance(t, Typedef) and isinstance(resolve(t), FuncType)) \
                    and not self._incomplete(t):
                return t
            return self.scalar()
        if x < 0.80 and self.o.arrays:
            return Array(self.value_type(depth + 1, allow_record), [r.randint(1, 5)] + ([r.randint(1, 3)] if r.random() < 0.3 else []))
        if x < 0.88 and self.o.enums:
            t = self.pick_named(Enum)
            return t or self.scalar()
        return self.scalar()

    def _incomplete(self, t):
        t = resolve(t)
        if isinstance(t, Record):
            return t.opaque or getattr(t, "_building", False)
        if isinstance(t, Array):
            return self._incomplete(t.elem) or any(d is None for d in t.dims)
        return isinstance(t, (FuncType, Void))

    def cv(self):
        """qualifiers of a pointee: mostly const, sometimes volatile or both (generator v2)"""
        if not GEN2:
            return {"const": True}
        y = self.r.random()
        if y < 0.7:
            return {"const": True}
        if y < 0.85:
            return {"const": False, "volatile": True}
        return {"const": True, "volatile": True}

    def pointer_type(self, depth=0):
        r = self.r
        x = r.random()
        if x < 0.35:
            t = self.pick_named((Record,))
            if t is not None:
                if r.random() < 0.3:
                    return Pointer(Qualified(t, **self.cv()))
                return Pointer(t)
        if x < 0.45:
            return Pointer(Void())
        if x < 0.52:
            return Pointer(Qualified(Void(), **self.cv()))
        if x < 0.62:
            return Pointer(Qualified(Builtin("char"), **self.cv()))
        if x < 0.72 and self.o.func_ptrs and depth < 2:
            return Pointer(self.func_type(depth + 1, small=True))
        if x < 0.80 and depth < 2:
            return Pointer(self.pointer_type(depth + 1))
        if x < 0.88:
            t = self.pick_named((Typedef, Enum))
            if t is not None:
                return Pointer(t)
        return Pointer(self.scalar())

    def param_type(self, depth=0):
        r = self.r
        x = r.random()
        if x < 0.45:
            return self.pointer_type(depth)
        t = self.value_type(depth + 1)
        if isinstance(t, Array):
            return Pointer(t.elem) if not isinstance(t.elem, Array) else self.scalar()
        return t

    def ret_type(self):
        x = self.r.random()
        if x < 0.25:
            return Void()
        t = self.param_type(1)
        return t

    def func_type(self, depth=0, small=False):
        n = self.r.randint(0, 2 if small else 4)
        params = [self.param_type(depth + 1) for _ in range(n)]
        variadic = self.o.variadic and n > 0 and self.r.random() < 0.12
        return FuncType(self.ret_type() if not small else self.r.choice([Void(), Builtin("int"), self.pointer_type(2)]),
                        params, variadic)

    # ---- named types
    def gen_enum(self):
        r = self.r
        n = r.randint(1, 6)
        vals, v = [], r.choice([0, 0, 0, 1, -3, 10])
        for i in range(n):
            vals.append((self.name("E").upper(), v))
            v += r.choice([1, 1, 1, 2, 5, 100])
        if r.random() < 0.1:
            vals.append((self.name("E").upper(), 2 ** 33 + r.randint(0, 9)))    # 64-bit enum (GNU extension in C)
        elif GEN2 and r.random() < 0.12:
            # boundary values of the representations libabigail parses enumerators into
            for b in r.sample([2 ** 63 - 1, -2 ** 63, 2 ** 31 - 1, -2 ** 31, 2 ** 32 - 1, 2 ** 32, -1], r.randint(1, 2)):
                if b not in [v_ for _n, v_ in vals]:
                    vals.append((self.name("E").upper(), b))
        e = Enum(self.name("e"), vals)
        self.p.types.append(e)
        return e

    def gen_typedef(self):
        r = self.r
        x = r.random()
        if x < 0.25 and self.o.func_ptrs:
            to = self.func_type(1, small=True)
            if r.random() < 0.7:
                to = Pointer(to)
        elif x < 0.45 and self.o.arrays:
            to = Array(self.scalar(), [r.randint(1, 4)])
        elif x < 0.65:
            to = self.pick_named((Record, Typedef, Enum)) or self.scalar()
        elif x < 0.8 and self.anon_on and self.o.lang == "c":
            self.p.features.add("naming-typedefs")
            # the C idiom 'typedef struct { ... } name;' / 'typedef enum { ... } name;' (a "naming typedef")
            if r.random() < 0.75:
                to = Record("struct" if (r.random() < 0.8 or not self.o.unions) else "union", None, [])
                to.fields = self.gen_fields(to, 1)
            else:
                to = Enum(None, [(self.name("E").upper(), k) for k in range(r.randint(1, 4))])
        else:
            to = self.value_type(1) if r.random() < 0.5 else self.pointer_type(1)
        t = Typedef(self.name("t"), to)
        self.p.types.append(t)
        return t

    def gen_fields(self, rec, depth=0):
        r = self.r
        n = r.randint(1, 6)
        fields = []
        for i in range(n):
            x = r.random()
            if x < 0.15 and self.o.bitfields and rec.kind != "union":
                base = Builtin(r.choice(["int", "unsigned int", "unsigned char", "unsigned short", "long", "unsigned long long"]))
                maxw = {"int": 32, "unsigned int": 32, "unsigned char": 8, "unsigned short": 16, "long": 64,
                        "unsigned long long": 64}[base.name]
                k = r.randint(1, 3)
                for j in range(k):
                    # never the full width of the declared type: clang then describes the member as a plain
                    # (byte-addressed) member, which is wrong when it sits at an unaligned bit position
                    fields.append(Field(self.name("m"), base, bits=r.randint(1, maxw - 1)))
                if r.random() < 0.15:
                    fields.append(Field(None, base, bits=0))
            elif x < 0.25 and self.o.anon_members and depth < 2:
                inner = Record(r.choice(["struct", "union"]) if self.o.unions else "struct", None, [])
                inner.fields = self.gen_fields(inner, depth + 1)
                # anonymous member (no name) or named member of anonymous type
                fields.append(Field(None if r.random() < 0.6 else self.name("m"), inner))
            elif x < 0.35 and self.o.recursive:
                fields.append(Field(self.name("m"), Pointer(rec) if rec.name else Pointer(Void())))
            elif x < 0.43 and self.anon_on and depth < 2 and (self.o.lang == "c" or (depth == 0 and rec.name)):
                # anonymous types in compound positions: pointer to / const / array of an anonymous struct or union, anonymous enums
                y = r.random()
                if y < 0.3:
                    n_e = r.randint(1, 3)
                    inner = Enum(None, [(self.name("E").upper(), k) for k in range(n_e)])
                else:
                    inner = Record(r.choice(["struct", "union"]) if self.o.unions else "struct", None, [])
                    inner.fields = self.gen_fields(inner, depth + 1)
                z = r.random()
                if z < 0.4:
                    t = Pointer(inner)
                elif z < 0.6 and self.o.lang == "c":
                    t = Qualified(inner, const=True)
                elif z < 0.8:
                    t = Array(inner, [r.randint(1, 3)])
                else:
                    t = inner if isinstance(inner, Enum) else Pointer(inner)
                self.p.features.add("anonymous-compound-types")
                fields.append(Field(self.name("m"), t))
            else:
                # C++: a class with virtual functions / bases is not allowed inside a union or an anonymous aggregate
                plain_only = self.o.lang == "cxx" and (depth > 0 or rec.kind == "union")
                t = self.value_type(depth + 1, allow_record=not plain_only)
                fields.append(Field(self.name("m"), t))
        # anonymous members must not have name clashes: names are globally unique already
        return fields

    def gen_record(self):
        r = self.r
        kind = "union" if (self.o.unions and r.random() < 0.2) else "struct"
        rec = Record(kind, self.name("s" if kind == "struct" else "u"), [])
        rec._building = True
        self.p.types.append(rec)
        if self.o.opaque and r.random() < 0.08:
            rec.opaque = True
            rec._building = False
            return rec
        rec.fields = self.gen_fields(rec)
        if self.o.lang == "cxx" and self.o.cxx_classes:
            rec._building = False
            self.cxx_decorate_record(rec)
            rec._building = True
            kind = rec.kind
        if self.o.flex_array and self.o.lang == "c" and kind == "struct" and r.random() < 0.06 and len(rec.fields) >= 1 and not any(
                isinstance(f.type, Record) and f.type.name is None for f in rec.fields[-1:]):
            rec.fields.append(Field(self.name("m"), Array(self.scalar(), [None])))
            rec.flex = True
        if self.o.attrs:
            x = r.random()
            if x < 0.08:
                rec.attrs = ("packed",)
            elif x < 0.14:
                rec.attrs = (("aligned", r.choice([8, 16, 32])),)
        rec._building = False
        return rec

    # ---- C++ only
    def cxx_decorate_record(self, rec):
        """bases, methods, access specifiers, static data member"""
        r = self.r
        if rec.kind == "union" or rec.opaque:
            return
        if r.random() < 0.35:
            rec.kind = "class"
        # access specifiers on data members
        acc = "public"
        for f in rec.fields:
            if r.random() < 0.25:
                acc = r.choice(["public", "protected", "private"])
            f.access = acc
        # bases: earlier complete non-union records
        cands = [t for t in self.p.types if isinstance(t, Record) and t is not rec and not t.opaque and t.kind != "union"
                 and not getattr(t, "flex", False) and not getattr(t, "_building", False) and t.name]
        if cands and r.random() < 0.4:
            nb = 1 if r.random() < 0.7 else 2
            for b in r.sample(cands, min(nb, len(cands))):
                if any(b is x[0] for x in rec.bases):
                    continue
                rec.bases.append((b, r.choice(["public", "public", "protected", "private"]), r.random() < 0.25))
        # member functions
        for k in range(r.choice([0, 0, 1, 2, 3])):
            ft = self.func_type(1, small=True)
            ft.params = [self._fix_byvalue(p) for p in ft.params]
            ft.ret = self._fix_byvalue(ft.ret, ret=True)
            ft.variadic = False
            rec.methods.append(Method(self.name("mf"), ft, [self.name("p") for _ in ft.params], virtual=r.random() < 0.4,
                                      access=r.choice(["public", "public", "protected", "private"]), static=False, inline=False))
        if rec.methods and any(m.virtual for m in rec.methods):
            pass
        if r.random() < 0.12:
            rec.fields.append(Field(self.name("sm"), Builtin(r.choice(["int", "long", "char"])), access="public", static=True))
        if getattr(rec, "flex", False) and (rec.bases or any(f.static for f in rec.fields)):
            # keep the flexible array last
            fl = [f for f in rec.fields if isinstance(f.type, Array) and None in f.type.dims]
            for f in fl:
                rec.fields.remove(f)
                rec.fields.append(f)

    def gen_function(self):
        ft = self.func_type(0)
        if self.o.lang == "cxx":
            # some parameters / returns become references
            for k, p_ in enumerate(ft.params):
                if isinstance(p_, Pointer) and not isinstance(p_.to, (Void, FuncType)) and not (isinstance(p_.to, Qualified) and isinstance(p_.to.to, Void)) \
                        and self.r.random() < 0.3:
                    ft.params[k] = Reference(p_.to)
            ft.variadic = ft.variadic and self.r.random() < 0.5
        # by-value parameters / returns must be complete and not flexible
        ft.params = [self._fix_byvalue(p) for p in ft.params]
        ft.ret = self._fix_byvalue(ft.ret, ret=True)
        f = Function(self.name("f"), ft, [self.name("p") for _ in ft.params], tu=self.r.randrange(self.p.ntus))
        self.p.functions.append(f)
        return f

    def _fix_byvalue(self, t, ret=False):
        rt = resolve(t)
        if isinstance(rt, Record) and (rt.opaque or getattr(rt, "flex", False)):
            return Pointer(t)
        if isinstance(rt, Array):
            # array parameters are adjusted to pointers by the language (compiler-defined DWARF): never generated
            return Pointer(Builtin("int")) if ret else Pointer(t)
        if isinstance(rt, FuncType):
            return Pointer(t)
        return t

    def gen_variable(self):
        t = self.value_type(0)
        if self._incomplete(t) or getattr(resolve(t), "flex", False):
            t = self.scalar()
        if self.r.random() < 0.15 and _is_scalar(t):
            t = Qualified(t, const=True)
        elif self.r.random() < 0.12:
            arr_tds = [x for x in self.p.types if isinstance(x, Typedef) and isinstance(resolve(x), Array)
                       and not self._incomplete(x)]
            if arr_tds:
                t = Qualified(self.r.choice(arr_tds), const=True)
        v = Variable(self.name("v"), t, tu=self.r.randrange(self.p.ntus))
        v.init_seed = self.r.randint(0, 1000)
        self.p.variables.append(v)
        return v

    def run(self):
        o, r = self.o, self.r
        # anonymous types in compound positions / naming typedefs: in one program out of seven only
        self.anon_on = bool(o.anon_compound) and r.random() < 0.15
        for i in range(o.ntypes):
            x = r.random()
            if x < 0.55 or not self.p.types:
                self.gen_record()
            elif x < 0.75 and o.enums:
                self.gen_enum()
            else:
                self.gen_typedef()
        if o.recursive and o.mutual:
            self.add_back_edges()
        for i in range(o.nfuncs):
            self.gen_function()
        for i in range(o.nvars):
            self.gen_variable()
        # make sure most named types are reachable: add accessor functions for unreferenced ones
        used = set()
        for i in self.p.exported_functions() + self.p.exported_variables():
            for t in self.p.interface_types(i):
                used.add(id(t))
        for t in self.p.types:
            if id(t) not in used and r.random() < 0.7:
                if isinstance(resolve(t), FuncType):
                    pt = Pointer(t)
                elif self._incomplete(t):
                    pt = Pointer(t)
                else:
                    pt = Pointer(t) if r.random() < 0.7 or getattr(t, "flex", False) or isinstance(resolve(t), Array) else t
                ft = FuncType(Void() if r.random() < 0.7 else Builtin("int"), [pt])
                f = Function(self.name("f"), ft, [self.name("p")], tu=r.randrange(self.p.ntus))
                self.p.functions.append(f)
                for tt in self.p.interface_types(f):
                    used.add(id(tt))
        if o.private_types:
            self.assign_visibility_of_types()
        return self.p

    def add_back_edges(self):
        """Pointer members from a record to a record defined later: reference cycles of length >= 2, nested cycles."""
        r = self.r
        recs = [t for t in self.p.types if isinstance(t, Record) and t.name and not t.opaque]
        if len(recs) < 2:
            return
        be = getattr(self.o, "back_edges", None)
        for _ in range(r.randint(*be) if be else r.choice([0, 1, 1, 2, 3, 4])):
            i = r.randrange(len(recs) - 1)
            a, b = recs[i], recs[r.randrange(i + 1, len(recs))]
            hi = len(a.fields) - (1 if getattr(a, "flex", False) else 0)
            pos = r.randint(0, hi)
            f = Field(self.name("m"), Pointer(b))
            if a.fields:
                f.access = a.fields[pos - 1 if pos else 0].access
            a.fields.insert(pos, f)
            b.fwd_early = True

    def assign_visibility_of_types(self):
        """Split types over public.h / private.h / TU-local, keeping every definition visible where used:
        a type may be private/local only if every *complete* use of it is from types that are equally hidden
        and from functions/variables... (we only hide records that are used through pointers by the interface)."""
        p, r = self.p, self.r
        # which records are used by value anywhere (fields, by-value params, variables)?
        byvalue = set()

        def mark(t):
            t0 = t
            while isinstance(t0, (Typedef, Qualified, Array)):
                t0 = t0.to if not isinstance(t0, Array) else t0.elem
            if isinstance(t0, Record) and t0.name:
                byvalue.add(id(t0))
            elif isinstance(t0, Record):
                walk(t0)
            elif isinstance(t0, Pointer):
                # an anonymous aggregate defined in place behind the pointer: its by-value members need complete types
                while isinstance(t0, (Pointer, Qualified, Array)):
                    t0 = t0.to if not isinstance(t0, Array) else t0.elem
                if isinstance(t0, Record) and t0.name is None:
                    walk(t0)

        def walk(rec):
            for f in rec.fields:
                if isinstance(f.type, Record) and f.type.name is None:
                    walk(f.type)
                else:
                    mark(f.type)
        for t in p.types:
            if isinstance(t, Record):
                walk(t)
                for b in t.bases:
                    mark(b[0])
                for m in t.methods:
                    for q in m.ftype.params + [m.ftype.ret]:
                        mark(q)
            elif isinstance(t, Typedef):
                mark(t.to)
        for f in p.functions:
            for q in f.ftype.params + [f.ftype.ret]:
                mark(q)
        for v in p.variables:
            mark(v.type)
        for t in p.types:
            if isinstance(t, Record) and not t.opaque and id(t) not in byvalue:
                x = r.random()
                if x < 0.35:
                    t.where = "private"
                elif x < 0.5 and p.ntus >= 1:
                    t.where = "private"   # TU-local variant handled by caller when wanted


def generate(rng, opts=None, nonce=None):
    opts = opts or GenOpts()
    nonce = nonce or "%04x" % rng.randrange(16 ** 4)
    g = Gen(rng, opts, nonce)
    p = g.run()
    LAST_FEATURES.clear()
    LAST_FEATURES.update(p.features)
    return p


if GEN2:     # C++ side of the generator
    CXX_READY = True
