"""Parser for abidiff / abicompat / abipkgdiff reports (summary + sections + entries).

Fails closed: every non-blank line at indentation <= 2 must be consumed by a rule, otherwise the
line is recorded in Report.unparsed and the caller treats the case as inconclusive.
"""
import re

_FILT = r"(?: \((\d+) filtered out\))?"
RE_FN_SUM = re.compile(r"^Functions changes summary: (\d+) Removed%s, (\d+) Changed%s, (\d+) Added%s functions?$" % (_FILT, _FILT, _FILT))
RE_VAR_SUM = re.compile(r"^Variables changes summary: (\d+) Removed%s, (\d+) Changed%s, (\d+) Added%s variables?$" % (_FILT, _FILT, _FILT))
RE_FSYM_SUM = re.compile(r"^Function symbols changes summary: (\d+) Removed%s, (\d+) Added%s function symbols? not referenced by debug info$" % (_FILT, _FILT))
RE_VSYM_SUM = re.compile(r"^Variable symbols changes summary: (\d+) Removed%s, (\d+) Added%s variable symbols? not referenced by debug info$" % (_FILT, _FILT))
RE_UNREACH_SUM = re.compile(r"^Unreachable types summary: (\d+) removed%s, (\d+) changed%s, (\d+) added%s types?$" % (_FILT, _FILT, _FILT))
RE_LEAF_SUM = re.compile(r"^Leaf changes summary: (\d+) artifacts? changed%s$" % _FILT)
RE_LEAF_TYPES = re.compile(r"^Changed leaf types summary: (\d+)%s leaf types? changed$" % _FILT)
# in leaf mode the "(N filtered out)" of the Added counter is printed after the noun
RE_LEAF_FN = re.compile(r"^Removed/Changed/Added functions summary: (\d+) Removed%s, (\d+) Changed%s, (\d+) Added functions?%s$" % (_FILT, _FILT, _FILT))
RE_LEAF_VAR = re.compile(r"^Removed/Changed/Added variables summary: (\d+) Removed%s, (\d+) Changed%s, (\d+) Added variables?%s$" % (_FILT, _FILT, _FILT))

SECTION_RULES = [
    ("fn-removed", re.compile(r"^(\d+) Removed functions?:$")),
    ("fn-added", re.compile(r"^(\d+) Added functions?:$")),
    ("fn-changed", re.compile(r"^(\d+) functions? with (?:some|incompatible) (?:indirect )?sub-type changes?:$")),
    ("var-removed", re.compile(r"^(\d+) Removed variables?:$")),
    ("var-added", re.compile(r"^(\d+) Added variables?:$")),
    ("var-changed", re.compile(r"^(\d+) Changed variables?:$")),
    ("fsym-removed", re.compile(r"^(\d+) Removed function symbols? not referenced by debug info:$")),
    ("fsym-added", re.compile(r"^(\d+) Added function symbols? not referenced by debug info:$")),
    ("vsym-removed", re.compile(r"^(\d+) Removed variable symbols? not referenced by debug info:$")),
    ("vsym-added", re.compile(r"^(\d+) Added variable symbols? not referenced by debug info:$")),
    ("unreach-removed", re.compile(r"^(\d+) removed types? unreachable from any public interface:$")),
    ("unreach-changed", re.compile(r"^(\d+) changed types? unreachable from any public interface:$")),
    ("unreach-added", re.compile(r"^(\d+) added types? unreachable from any public interface:$")),
]
RE_ENTRY = re.compile(r"^  \[([DAC])\] ?(.*)$")
RE_LEAF_BLOCK = re.compile(r"^'(.+)' changed:$")
RE_IMPACTED = re.compile(r"^\s+(?:one|\d+) impacted interfaces?:$")
OTHER_TOP = [
    re.compile(r"^ELF SONAME changed$"), re.compile(r"^ELF architecture changed$"),
    re.compile(r"^SONAME changed from '.*' to '.*'$"), re.compile(r"^architecture changed from '.*' to '.*'$"),
]


class Entry(object):
    def __init__(self, tag, text):
        self.tag, self.text, self.body = tag, text, []

    def symbols(self):
        """names inside the trailing {sym, aliases a, b} of a decl entry, or the symbol id of a symbol entry"""
        m = re.search(r"\{([^{}]*)\}\s*$", self.text)
        if m:
            inner = m.group(1)
            inner = inner.replace("aliases ", "")
            return [x.strip() for x in inner.split(",") if x.strip()]
        if not self.text.startswith("'"):
            t = self.text.split(",")[0].strip()
            return [t] + [x.strip() for x in self.text.replace("aliases", "").split(",")[1:] if x.strip()]
        return []

    def mentions(self, name):
        return re.search(r"(?<![\w])%s(?![\w])" % re.escape(name), self.text) is not None

    def full_text(self):
        return self.text + "\n" + "\n".join(self.body)


class Report(object):
    def __init__(self, text):
        self.text = text
        self.summary = {}
        self.leaf = None
        self.sections = {}          # kind -> (headline count, [Entry])
        self.section_order = []
        self.leaf_blocks = []       # [(header text, [body lines])]
        self.impacted = []          # impacted interface lines (leaf mode), stripped
        self.flags = set()
        self.unparsed = []
        self.orphans = []           # [D]/[A]/[C] entries printed outside any announced section
        self._parse()

    def _parse(self):
        cur_section = None
        cur_entry = None
        cur_leaf = None
        in_impacted_indent = None
        for raw in self.text.split("\n"):
            line = raw.rstrip("\n")
            if not line.strip():
                continue
            ind = len(line) - len(line.lstrip(" "))
            # impacted-interface lists (any depth)
            if RE_IMPACTED.match(line):
                in_impacted_indent = ind
                (cur_entry.body if cur_entry else cur_leaf[1] if cur_leaf else []).append(line)
                continue
            if in_impacted_indent is not None:
                if ind > in_impacted_indent:
                    self.impacted.append(line.strip())
                    (cur_entry.body if cur_entry else cur_leaf[1] if cur_leaf else []).append(line)
                    continue
                in_impacted_indent = None
            if ind == 0:
                m = RE_FN_SUM.match(line)
                if m:
                    self.summary["fn"] = _triple(m)
                    continue
                m = RE_VAR_SUM.match(line)
                if m:
                    self.summary["var"] = _triple(m)
                    continue
                m = RE_FSYM_SUM.match(line)
                if m:
                    self.summary["fsym"] = _pair(m)
                    continue
                m = RE_VSYM_SUM.match(line)
                if m:
                    self.summary["vsym"] = _pair(m)
                    continue
                m = RE_UNREACH_SUM.match(line)
                if m:
                    self.summary["unreach"] = _triple(m)
                    continue
                m = RE_LEAF_SUM.match(line)
                if m:
                    self.leaf = {"artifacts": (int(m.group(1)), int(m.group(2) or 0))}
                    continue
                m = RE_LEAF_TYPES.match(line)
                if m:
                    (self.leaf if self.leaf is not None else self.summary)["leaf_types"] = (int(m.group(1)), int(m.group(2) or 0))
                    continue
                m = RE_LEAF_FN.match(line)
                if m:
                    self.summary["fn"] = _triple(m)
                    continue
                m = RE_LEAF_VAR.match(line)
                if m:
                    self.summary["var"] = _triple(m)
                    continue
                matched = False
                for kind, rx in SECTION_RULES:
                    m = rx.match(line)
                    if m:
                        cur_section = kind
                        self.sections[kind] = (int(m.group(1)), [])
                        self.section_order.append(kind)
                        cur_entry = None
                        cur_leaf = None
                        matched = True
                        break
                if matched:
                    continue
                m = RE_LEAF_BLOCK.match(line)
                if m:
                    cur_leaf = (m.group(1), [])
                    self.leaf_blocks.append(cur_leaf)
                    cur_entry = None
                    cur_section = None
                    continue
                if any(rx.match(line) for rx in OTHER_TOP):
                    self.flags.add("soname" if "SONAME" in line else "arch")
                    continue
                self.unparsed.append(line)
                continue
            if ind == 2:
                m = RE_ENTRY.match(line)
                if m and cur_section is not None:
                    cur_entry = Entry(m.group(1), m.group(2))
                    self.sections[cur_section][1].append(cur_entry)
                    cur_leaf = None
                    continue
                if m and cur_leaf is None and cur_entry is None:
                    # an interface entry that belongs to no announced section (also kept in `unparsed`: fail closed)
                    self.orphans.append(line.strip())
                if cur_leaf is not None:
                    cur_leaf[1].append(line)
                    continue
                if cur_entry is not None:
                    cur_entry.body.append(line)
                    continue
                self.unparsed.append(line)
                continue
            # deeper lines belong to the current entry / leaf block
            if cur_entry is not None:
                cur_entry.body.append(line)
            elif cur_leaf is not None:
                cur_leaf[1].append(line)
            else:
                self.unparsed.append(line)

    # ------------------------------------------------------------ queries
    def entries(self, kind):
        return self.sections.get(kind, (0, []))[1]

    def net_change(self):
        """Does the summary list at least one change that was not filtered out?"""
        for k in ("fn", "var", "unreach"):
            if k in self.summary and any(n for n, _f in self.summary[k].values()):
                return True
        for k in ("fsym", "vsym"):
            if k in self.summary and any(n for n, _f in self.summary[k].values()):
                return True
        if self.leaf is not None:
            if self.leaf["artifacts"][0]:
                return True
            if self.leaf.get("leaf_types", (0, 0))[0]:
                return True
        if self.flags:
            return True
        return False

    def interfaces(self, tags=("C", "D", "A")):
        out = []
        for kind in self.section_order:
            for e in self.sections[kind][1]:
                if e.tag in tags:
                    out.append((kind, e))
        return out


def _triple(m):
    g = m.groups()
    return {"removed": (int(g[0]), int(g[1] or 0)), "changed": (int(g[2]), int(g[3] or 0)), "added": (int(g[4]), int(g[5] or 0))}


def _pair(m):
    g = m.groups()
    return {"removed": (int(g[0]), int(g[1] or 0)), "added": (int(g[2]), int(g[3] or 0))}


def selftest():
    t = """Functions changes summary: 1 Removed, 1 Changed (1 filtered out), 0 Added functions
Variables changes summary: 0 Removed, 0 Changed, 0 Added variable

1 Removed function:

  [D] 'function const char* f_44cb_46(s_44cb_1*, float*)'    {f_44cb_46}

1 function with some indirect sub-type change:

  [C] 'function void* f_44cb_49(long long int, e_44cb_16)' at tu1.c:7:1 has some indirect sub-type changes:
    parameter 2 of type 'enum e_44cb_16' has sub-type changes:
      type size hasn't changed
"""
    r = Report(t)
    assert not r.unparsed, r.unparsed
    assert r.summary["fn"]["changed"] == (1, 1)
    assert r.entries("fn-removed")[0].symbols() == ["f_44cb_46"]
    assert r.entries("fn-changed")[0].mentions("f_44cb_49")
    assert r.net_change()
    r = Report("weird line\n")
    assert r.unparsed == ["weird line"]
