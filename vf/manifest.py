"""Regenerates /verif/MANIFEST.json from the check modules that exist (python3 -m vf.manifest)."""
import importlib
import json
import os
import subprocess

VERIF = os.path.dirname(os.path.dirname(os.path.abspath(__file__)))

NOT_BUILT = "check not built yet in this session (design in DESIGN.md section 2); not claimed until it exists and is silent on the unchanged tree"


def main():
    props = [json.loads(l) for l in open(os.path.join(VERIF, "properties.jsonl"))]
    checks, na = [], []
    engines = {}
    for p in props:
        pid = p["id"]
        modp = os.path.join(VERIF, "vf", "checks", pid.lower() + ".py")
        if not os.path.exists(modp):
            na.append({"property_id": pid, "reason": NOT_BUILT})
            continue
        mod = importlib.import_module("vf.checks." + pid.lower())
        if getattr(mod, "NOT_CLAIMED", None):
            na.append({"property_id": pid, "reason": mod.NOT_CLAIMED})
            continue
        checks.append({
            "property_id": pid,
            "quick_cmd": "./check %s --tier quick" % pid,
            "thorough_cmd": "./check %s --tier thorough" % pid,
            "evidence_file": "/verif/evidence/%s.json" % pid,
            "replay_cmd_template": "./check %s --replay {path}" % pid,
            "engine": getattr(mod, "ENGINE", "vf"),
            "level_claimed": {
                "category": mod.LEVEL,
                "text": mod.LEVEL_TEXT,
                "design_ref": "DESIGN.md section 2, " + pid,
            },
            "level_note": mod.LEVEL_NOTE,
            "technique": mod.TECHNIQUE,
        })
        engines.setdefault(getattr(mod, "ENGINE", "vf"), []).append(pid)
    hooks_commits = []
    hp = os.path.join(VERIF, "hooks_commits.txt")
    if os.path.exists(hp):
        hooks_commits = [l.split()[0] for l in open(hp) if l.strip() and not l.startswith("#")]
    man = {
        "version": 1,
        "setup_cmd": "./check --setup",
        "hooks": {
            "guard": "ABG_VERIF_HOOKS",
            "enable": "vf/build.py compiles /repo/src/*.cc and /repo/tools/*.cc from the current working tree with "
                      "-DABG_VERIF_HOOKS (flavors plain/asan/tsan/dbg/fuzz) into $VERIF_WORK (default /var/tmp/verif-<uid>); "
                      "the in-tree autotools build never defines the guard",
            "baseline_off_cmd": "make -C /repo -k check",
            "source_commits": hooks_commits,
            "add_only": True,
        },
        "engines": [{"name": k, "path": "/verif/vf", "serves_properties": v,
                     "kind_free_text": ENGINE_TEXT.get(k, "runtime monitoring")} for k, v in sorted(engines.items())],
        "checks": checks,
        "not_applicable": na,
        "notes": "Technique family: runtime monitoring and sanitizers.  Every verdict is 'held on the executions observed' "
                 "(exit 0), 'violated with witness' (exit 1) or 'inconclusive / harness failure' (exit 2).  "
                 "known_findings.txt lists genuine defects recorded rather than repaired.",
    }
    with open(os.path.join(VERIF, "MANIFEST.json"), "w") as fh:
        json.dump(man, fh, indent=1)
        fh.write("\n")
    print("MANIFEST: %d checks, %d not claimed" % (len(checks), len(na)))


ENGINE_TEXT = {
    "api-harness": "C++ harness linked against the freshly built libabigail.a, reference model inside the harness, run under ASan+UBSan",
    "cli-oracle": "generated programs compiled with gcc/clang, real tools executed, independent oracles (readelf, expat, compiler probes, metamorphic relations)",
    "hostile-input": "generated hostile inputs fed to the sanitizer build; termination classifier",
    "fault-injection": "enumerated faults (truncation points, failing write/close calls) against the real tools",
    "concurrency": "ThreadSanitizer build + schedule perturbation at hooks + offline event-log checker",
}

if __name__ == "__main__":
    main()
