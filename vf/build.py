"""Flavor builds of /repo's *current working tree*.

Every check calls get_build(flavor) which returns a directory holding
libabigail.a, the tools and the C++ harnesses, compiled from /repo/src,
/repo/tools and /verif/harness with the flavor's flags.  The cache key is a
SHA-256 over the contents of the sources plus the flag string, so an edited
/repo always triggers a rebuild and an untouched one is reused.
"""
import hashlib
import os
import shutil
import subprocess
import sys
import fcntl
import time

REPO = os.environ.get("VERIF_REPO", "/repo")
VERIF = os.path.dirname(os.path.dirname(os.path.abspath(__file__)))
WORK = os.environ.get("VERIF_WORK", "/var/tmp/verif-%d" % os.getuid())

LIB_EXCLUDE = {"abg-ctf-reader.cc"}
TOOLS = {
    "abidiff": "abidiff.cc", "abidw": "abidw.cc", "abilint": "abilint.cc",
    "abisym": "abisym.cc", "abicompat": "abicompat.cc",
    "abipkgdiff": "abipkgdiff.cc", "abinilint": "binilint.cc",
    "kmidiff": "kmidiff.cc",
}

COMMON = ("-DHAVE_CONFIG_H -DABIGAIL_ROOT_SYSTEM_LIBDIR=\\\"/usr/local/lib\\\" "
          "-I/usr/include/libxml2 -I{repo} -I{repo}/include -I{repo}/src "
          "-fvisibility=hidden -std=c++11 -Wno-error -w "
          "-include {verif}/harness/verif_assert.h")
LIBS = "-lxml2 -lelf -ldw -lpthread -ldl"

HOOK = "-DABG_VERIF_HOOKS"

FLAVORS = {
    "plain": dict(cxx="g++", flags="-O1 -g1 " + HOOK, ld=""),
    "nohook": dict(cxx="g++", flags="-O1 -g1", ld=""),
    "asan": dict(cxx="g++",
                 flags="-O1 -g1 -fno-omit-frame-pointer -fsanitize=address,undefined "
                       "-fno-sanitize-recover=all -D_GLIBCXX_ASSERTIONS " + HOOK,
                 ld="-fsanitize=address,undefined"),
    "tsan": dict(cxx="g++", flags="-O1 -g1 -fsanitize=thread " + HOOK,
                 ld="-fsanitize=thread"),
    "dbg": dict(cxx="g++",
                flags="-O1 -g1 -DWITH_DEBUG_SELF_COMPARISON "
                      "-DWITH_DEBUG_TYPE_CANONICALIZATION " + HOOK, ld=""),
    "fuzz": dict(cxx="clang++-14",
                 flags="-O1 -g1 -fno-omit-frame-pointer "
                       "-fsanitize=fuzzer-no-link,address,undefined "
                       "-fno-sanitize=object-size,vptr,function -fno-sanitize-recover=all " + HOOK,
                 ld="-fsanitize=fuzzer,address,undefined"),
}

# harness name -> (source, needs fuzzer main)
HARNESSES = {}


def _discover_harnesses():
    hd = os.path.join(VERIF, "harness")
    out = {}
    for f in sorted(os.listdir(hd)):
        if f.endswith(".cc") and not f.startswith("_"):
            out[f[:-3]] = f
    return out


def _hash_tree(h, root, exts):
    for dp, dn, fn in sorted(os.walk(root)):
        dn.sort()
        for f in sorted(fn):
            if f.endswith(exts):
                p = os.path.join(dp, f)
                # relative names: a snapshot of /verif elsewhere on disk with the same content shares the build
                h.update(os.path.relpath(p, root).encode())
                with open(p, "rb") as fh:
                    h.update(fh.read())


def source_key(flavor):
    h = hashlib.sha256()
    _hash_tree(h, os.path.join(REPO, "src"), (".cc", ".h"))
    _hash_tree(h, os.path.join(REPO, "include"), (".h",))
    _hash_tree(h, os.path.join(REPO, "tools"), (".cc", ".h"))
    with open(os.path.join(REPO, "config.h"), "rb") as fh:
        h.update(fh.read())
    _hash_tree(h, os.path.join(VERIF, "harness"), (".cc", ".h", ".c"))
    f = FLAVORS[flavor]
    h.update((f["cxx"] + f["flags"] + f["ld"] + COMMON + LIBS + REPO).encode())
    return h.hexdigest()[:20]


def _makefile(flavor, bdir):
    f = FLAVORS[flavor]
    common = COMMON.format(repo=REPO, verif=VERIF)
    srcs = sorted(x for x in os.listdir(os.path.join(REPO, "src"))
                  if x.endswith(".cc") and x not in LIB_EXCLUDE)
    lines = []
    lines.append("CXX=%s" % f["cxx"])
    lines.append("CXXFLAGS=%s %s" % (common, f["flags"]))
    lines.append("LDFLAGS=%s" % f["ld"])
    lines.append("LIBS=%s" % LIBS)
    objs = []
    for s in srcs:
        o = "lib/" + s[:-3] + ".o"
        objs.append(o)
        lines.append("%s: %s/src/%s\n\t$(CXX) $(CXXFLAGS) -c -o $@ $<" % (o, REPO, s))
    lines.append("libabigail.a: %s\n\trm -f $@; ar rcs $@ $^" % " ".join(objs))
    targets = ["libabigail.a"]
    is_fuzz = flavor == "fuzz"
    if not is_fuzz:
        for t, s in TOOLS.items():
            lines.append("lib/tool-%s.o: %s/tools/%s\n\t$(CXX) $(CXXFLAGS) -c -o $@ $<" % (t, REPO, s))
            lines.append("bin/%s: lib/tool-%s.o libabigail.a\n\t$(CXX) $(LDFLAGS) -pthread -o $@ $< libabigail.a $(LIBS)" % (t, t))
            targets.append("bin/" + t)
    harn = _discover_harnesses()
    for name, src in harn.items():
        fz = name.startswith("fuzz_")
        if fz != is_fuzz:
            continue
        if name == "sched_perturb":
            continue
        extra = ""
        if name in ("queue_monitor",):
            extra = " lib/h-sched_perturb.o"
        lines.append("lib/h-%s.o: %s/harness/%s\n\t$(CXX) $(CXXFLAGS) -I%s/tools -c -o $@ $<" % (name, VERIF, src, REPO))
        lines.append("bin/%s: lib/h-%s.o%s libabigail.a\n\t$(CXX) $(LDFLAGS) -pthread -rdynamic -o $@ $<%s libabigail.a $(LIBS)" % (name, name, extra, extra))
        targets.append("bin/" + name)
    if "sched_perturb" in harn and not is_fuzz:
        lines.append("lib/h-sched_perturb.o: %s/harness/sched_perturb.cc\n\t$(CXX) $(CXXFLAGS) -c -o $@ $<" % VERIF)
        # abipkgdiff with schedule perturbation linked in
        lines.append("bin/abipkgdiff-sched: lib/tool-abipkgdiff.o lib/h-sched_perturb.o libabigail.a\n\t$(CXX) $(LDFLAGS) -pthread -o $@ lib/tool-abipkgdiff.o lib/h-sched_perturb.o libabigail.a $(LIBS)")
        targets.append("bin/abipkgdiff-sched")
    if os.path.exists(os.path.join(VERIF, "harness", "iofault.c")) and flavor in ("plain", "nohook"):
        lines.append("bin/iofault.so: %s/harness/iofault.c\n\tgcc -O1 -shared -fPIC -o $@ $< -ldl" % VERIF)
        targets.append("bin/iofault.so")
    lines.insert(0, "all: " + " ".join(targets))
    lines.insert(0, ".PHONY: all")
    with open(os.path.join(bdir, "Makefile"), "w") as fh:
        fh.write("\n".join(lines) + "\n")


def get_build(flavor, quiet=False):
    """Return the path of an up-to-date build of `flavor` (building it if needed)."""
    os.makedirs(os.path.join(WORK, "build"), exist_ok=True)
    lockp = os.path.join(WORK, "build", flavor + ".lock")
    with open(lockp, "w") as lk:
        fcntl.flock(lk, fcntl.LOCK_EX)
        key = source_key(flavor)
        bdir = os.path.join(WORK, "build", "%s-%s" % (flavor, key))
        if os.path.exists(os.path.join(bdir, "DONE")):
            os.utime(os.path.join(bdir, "DONE"))
            return bdir
        # drop stale builds of this flavor: keep the 4 most recently used others (a background run from a
        # snapshot of /verif, or a scratch /repo, may be using them) unless they were not used for 3 hours
        others = []
        for d in os.listdir(os.path.join(WORK, "build")):
            if d.startswith(flavor + "-") and d != os.path.basename(bdir):
                dp = os.path.join(WORK, "build", d)
                try:
                    others.append((os.path.getmtime(os.path.join(dp, "DONE")), dp))
                except OSError:
                    if time.time() - os.path.getmtime(dp) > 1800:
                        shutil.rmtree(dp, ignore_errors=True)   # an abandoned partial build
        others.sort(reverse=True)
        for k, (mt, dp) in enumerate(others):
            if k >= 4 or time.time() - mt > 3 * 3600:
                shutil.rmtree(dp, ignore_errors=True)
        shutil.rmtree(bdir, ignore_errors=True)
        os.makedirs(os.path.join(bdir, "lib"))
        os.makedirs(os.path.join(bdir, "bin"))
        _makefile(flavor, bdir)
        t0 = time.time()
        if not quiet:
            sys.stderr.write("[build] %s (%s) ...\n" % (flavor, key))
        r = subprocess.run(["make", "-j16", "-k", "all"], cwd=bdir,
                           stdout=subprocess.PIPE, stderr=subprocess.STDOUT)
        if r.returncode != 0:
            sys.stderr.write(r.stdout.decode(errors="replace")[-6000:])
            raise BuildError("build of flavor %s failed" % flavor)
        open(os.path.join(bdir, "DONE"), "w").write("%.1f\n" % (time.time() - t0))
        if not quiet:
            sys.stderr.write("[build] %s done in %.0fs\n" % (flavor, time.time() - t0))
        return bdir


class BuildError(Exception):
    pass


def tool(bdir, name):
    return os.path.join(bdir, "bin", name)


if __name__ == "__main__":
    for fl in sys.argv[1:] or ["plain"]:
        print(get_build(fl))
