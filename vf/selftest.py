"""Self-tests of the framework's own parsers on canned samples."""


def main():
    fails = []
    from . import run
    r = run.Result()
    r.out, r.err, r.rc, r.sig = b"", b"VERIF-ABG-ASSERT function=foo cond=a == b\n", None, 6
    run.classify(r)
    if r.key != "assert:foo:a==b":
        fails.append("classify assert: %r" % r.key)
    for mod in ("report", "abixml", "readelf"):
        try:
            m = __import__("vf." + mod, fromlist=["selftest"])
        except ImportError:
            continue
        if hasattr(m, "selftest"):
            try:
                m.selftest()
            except AssertionError as ex:
                fails.append("%s: %s" % (mod, ex))
    for f in fails:
        print("selftest FAIL:", f)
    return 1 if fails else 0
