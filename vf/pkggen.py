"""Package (directory / tar) generator for abipkgdiff workloads."""
import os
import shutil
import subprocess
from . import progen, cc, mutate, wl


def make_packages(ctx, rng, d, nlibs, removals=True, additions=True, changes=True, subdirs=True, tar=False, family=None):
    """Two package directories with `nlibs` shared libraries.  Returns (pkg1, pkg2, model) where model is a list of
    dicts {name, rel1, rel2, status in same|changed|removed|added, soname}."""
    p1, p2 = os.path.join(d, "pkg1"), os.path.join(d, "pkg2")
    os.makedirs(p1)
    os.makedirs(p2)
    model = []
    family = family or rng.choice(["gcc", "clang"])
    for k in range(nlibs):
        nonce = "%04x" % rng.randrange(16 ** 4)
        prog = progen.generate(rng, progen.GenOpts(ntypes=rng.randint(2, 7), nfuncs=rng.randint(1, 5), nvars=rng.randint(0, 2), ntus=1), nonce=nonce)
        x = rng.random()
        status = "same"
        if removals and x < 0.12:
            status = "removed"
        elif additions and x < 0.22:
            status = "added"
        elif changes and x < 0.55:
            status = "changed"
        q = prog
        kinds = []
        if status == "changed":
            res = mutate.apply_random(mutate.BREAKING, prog, rng)
            if res is None:
                status = "same"
            else:
                q, e = res
                kinds = [e.kind]
        sub = rng.choice(["", "", "usr/lib64", "lib", "opt/x/lib"]) if subdirs else ""
        name = "lib%s_%d.so" % (nonce, k)
        soname = name + ".1" if rng.random() < 0.5 else None
        prog.soname = q.soname = soname
        bdir = os.path.join(d, "build", str(k))
        try:
            a = cc.build(prog, os.path.join(bdir, "a"), family=family, dwarf=4, kind="so") if status != "added" else None
            b = cc.build(q, os.path.join(bdir, "b"), family=family, dwarf=4, kind="so") if status != "removed" else None
        except cc.CompileError:
            continue
        rel = os.path.join(sub, name)
        if a:
            os.makedirs(os.path.join(p1, sub), exist_ok=True)
            shutil.copy(a, os.path.join(p1, rel))
        if b:
            os.makedirs(os.path.join(p2, sub), exist_ok=True)
            shutil.copy(b, os.path.join(p2, rel))
        model.append({"name": name, "rel": rel, "status": status, "soname": soname, "mutations": kinds,
                      "a": os.path.join(p1, rel) if a else None, "b": os.path.join(p2, rel) if b else None})
    shutil.rmtree(os.path.join(d, "build"), ignore_errors=True)
    if tar:
        t1, t2 = os.path.join(d, "pkg1.tar"), os.path.join(d, "pkg2.tar")
        subprocess.run(["tar", "-cf", t1, "-C", d, "pkg1"], check=True)
        subprocess.run(["tar", "-cf", t2, "-C", d, "pkg2"], check=True)
        return t1, t2, model
    return p1, p2, model
