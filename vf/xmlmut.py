"""Structure-aware mutator of abidw documents (line-oriented: abidw puts one tag per line)."""
import re

ATTR_RE = re.compile(rb"([\w-]+)='([^']*)'")
HOSTILE_VALUES = [b"", b"0", b"-1", b"1", b"99999999999999999999999999", b"18446744073709551615", b"4294967296", b"abc", b"yes", b"no",
                  b"type-id-0", b"type-id-999999", b"&lt;", b"'", b" ", b"0x10", b"1e9", b"-0", b"9223372036854775808", b"infinite",
                  b"unknown", b"struct", b"public", b"private", b"lvalue", b"rvalue", b"global-binding", b"func-type", b"LANG_C99", b"\xc3\xa9"]
VERSIONS = [b"", b"3", b".", b"2.", b".1", b"a.b", b"2.1.1", b"99.99", b"-1.0", b"2", b"1.0", b"2.x", b"2.1 ", b"0.0"]


def element_span(lines, k):
    """Lines [k, e] of the element starting at line k."""
    l = lines[k]
    st = l.lstrip()
    if not st.startswith(b"<") or st.startswith(b"</") or st.startswith(b"<!--") or st.startswith(b"<?"):
        return None
    if st.rstrip().endswith(b"/>"):
        return (k, k)
    m = re.match(rb"<([\w-]+)", st)
    if not m:
        return None
    ind = len(l) - len(st)
    close = b" " * ind + b"</" + m.group(1) + b">"
    for e in range(k + 1, len(lines)):
        if lines[e].rstrip() == close:
            return (k, e)
    return None


def ids_of(data):
    return list({m.group(1) for m in re.finditer(rb" id='([^']*)'", data)})


def mutate(rng, data):
    """-> (kind, mutated bytes)"""
    lines = data.split(b"\n")
    op = rng.choice(["attr-value", "attr-value", "attr-value", "attr-id", "attr-id", "attr-delete", "attr-dup", "elem-delete", "elem-dup",
                     "elem-swap", "elem-reparent", "version", "root", "bytes", "truncate", "self-ref", "cycle", "elem-rename", "attr-rename"])
    if op in ("attr-value", "attr-id", "attr-delete", "attr-dup", "self-ref", "attr-rename"):
        cand = [k for k, l in enumerate(lines) if ATTR_RE.search(l)]
        if not cand:
            return "noop", data
        k = rng.choice(cand)
        attrs = list(ATTR_RE.finditer(lines[k]))
        if op == "attr-id":
            idattrs = [a for a in attrs if a.group(1).endswith(b"-id") or a.group(1) == b"id"]
            if not idattrs:
                op = "attr-value"
            else:
                a = rng.choice(idattrs)
                allids = ids_of(data)
                new = rng.choice(allids) if allids and rng.random() < 0.7 else rng.choice([b"type-id-999999", b"", b"x"])
                lines[k] = lines[k][:a.start(2)] + new + lines[k][a.end(2):]
                return "attr-id:%s" % a.group(1).decode(), b"\n".join(lines)
        if op == "self-ref":
            # make a type refer to itself
            mid = re.search(rb" id='([^']*)'", lines[k])
            mt = re.search(rb" type-id='([^']*)'", lines[k])
            if mid and mt:
                lines[k] = lines[k][:mt.start(1)] + mid.group(1) + lines[k][mt.end(1):]
                return "self-ref", b"\n".join(lines)
            op = "attr-value"
        a = rng.choice(attrs)
        if op == "attr-value":
            new = rng.choice(HOSTILE_VALUES)
            lines[k] = lines[k][:a.start(2)] + new + lines[k][a.end(2):]
            return "attr-value:%s" % a.group(1).decode(), b"\n".join(lines)
        if op == "attr-delete":
            lines[k] = lines[k][:a.start()] + lines[k][a.end():]
            return "attr-delete:%s" % a.group(1).decode(), b"\n".join(lines)
        if op == "attr-rename":
            lines[k] = lines[k][:a.start(1)] + b"x" + a.group(1) + lines[k][a.end(1):]
            return "attr-rename:%s" % a.group(1).decode(), b"\n".join(lines)
        if op == "attr-dup":
            other = rng.choice(attrs)
            lines[k] = lines[k][:a.end()] + b" " + other.group(1) + b"2='" + other.group(2) + b"'" + lines[k][a.end():]
            return "attr-dup", b"\n".join(lines)
    if op in ("elem-delete", "elem-dup", "elem-swap", "elem-reparent", "elem-rename"):
        spans = []
        if len(lines) < 3:
            return "noop", data
        for _ in range(30):
            k = rng.randrange(1, max(2, len(lines) - 1))
            sp = element_span(lines, k)
            if sp:
                spans.append(sp)
            if len(spans) >= 2:
                break
        if not spans:
            return "noop", data
        s, e = spans[0]
        tag = re.match(rb"\s*<([\w-]+)", lines[s]).group(1).decode()
        if op == "elem-delete":
            return "elem-delete:" + tag, b"\n".join(lines[:s] + lines[e + 1:])
        if op == "elem-dup":
            return "elem-dup:" + tag, b"\n".join(lines[:e + 1] + lines[s:e + 1] + lines[e + 1:])
        if op == "elem-rename":
            new = rng.choice([b"class-decl", b"union-decl", b"enum-decl", b"typedef-decl", b"pointer-type-def", b"function-decl", b"var-decl",
                              b"type-decl", b"array-type-def", b"subrange", b"data-member", b"member-type", b"base-class", b"namespace-decl",
                              b"function-type", b"qualified-type-def", b"reference-type-def", b"parameter", b"abi-instr", b"foo"])
            block = lines[s:e + 1]
            block[0] = re.sub(rb"<[\w-]+", b"<" + new, block[0], 1)
            if e > s:
                block[-1] = re.sub(rb"</[\w-]+", b"</" + new, block[-1], 1)
            return "elem-rename:%s->%s" % (tag, new.decode()), b"\n".join(lines[:s] + block + lines[e + 1:])
        if len(spans) < 2:
            return "noop", data
        s2, e2 = spans[1]
        if not (e < s2 or e2 < s):
            return "noop", data
        if op == "elem-swap":
            (a1, b1), (a2, b2) = sorted([(s, e), (s2, e2)])
            return "elem-swap:" + tag, b"\n".join(lines[:a1] + lines[a2:b2 + 1] + lines[b1 + 1:a2] + lines[a1:b1 + 1] + lines[b2 + 1:])
        # reparent: move element 1 inside element 2 (right after its start tag) when element 2 is not self-closing
        block = lines[s:e + 1]
        rest = lines[:s] + lines[e + 1:]
        tgt = s2 if s2 < s else s2 - (e - s + 1)
        return "elem-reparent:" + tag, b"\n".join(rest[:tgt + 1] + block + rest[tgt + 1:])
    if op == "version":
        v = rng.choice(VERSIONS)
        return "version:" + v.decode(), re.sub(rb"version='[^']*'", b"version='" + v + b"'", data, 1)
    if op == "root":
        new = rng.choice([b"abi-corpus-group", b"abi-instr", b"abi-corpus2", b"html"])
        d2 = data.replace(b"<abi-corpus ", b"<" + new + b" ", 1)
        idx = d2.rfind(b"</abi-corpus>")
        if idx >= 0:
            d2 = d2[:idx] + b"</" + new + b">" + d2[idx + len(b"</abi-corpus>"):]
        return "root:" + new.decode(), d2
    if op == "cycle":
        # typedef / pointer / qualified chain closed into a cycle
        cand = [k for k, l in enumerate(lines) if re.search(rb"<(typedef-decl|pointer-type-def|qualified-type-def|array-type-def|reference-type-def) ", l)]
        if len(cand) < 2:
            return "noop", data
        k1, k2 = rng.sample(cand, 2)
        id1 = re.search(rb" id='([^']*)'", lines[k1])
        id2 = re.search(rb" id='([^']*)'", lines[k2])
        t1 = re.search(rb" type-id='([^']*)'", lines[k1])
        t2 = re.search(rb" type-id='([^']*)'", lines[k2])
        if not (id1 and id2 and t1 and t2):
            return "noop", data
        lines[k1] = lines[k1][:t1.start(1)] + id2.group(1) + lines[k1][t1.end(1):]
        t2 = re.search(rb" type-id='([^']*)'", lines[k2])
        lines[k2] = lines[k2][:t2.start(1)] + id1.group(1) + lines[k2][t2.end(1):]
        return "cycle", b"\n".join(lines)
    if op == "truncate":
        return "truncate", data[:rng.randrange(1, len(data))]
    b = bytearray(data)
    for _ in range(rng.choice([1, 2, 4])):
        p = rng.randrange(len(b))
        b[p] = rng.choice([rng.randrange(256), ord("<"), ord(">"), ord("'"), ord("&"), 0])
    return "bytes", bytes(b)
