"""ELF observer built on binutils readelf (not elfutils, not libabigail)."""
import re
import subprocess


class Sym(object):
    __slots__ = ("name", "version", "is_default", "value", "size", "type", "bind", "vis", "ndx", "table")

    def ident(self):
        if self.version:
            return "%s@%s%s" % (self.name, "@" if self.is_default else "", self.version)
        return self.name

    def __repr__(self):
        return "<%s %s %s %s %s ndx=%s val=%x size=%d>" % (self.ident(), self.type, self.bind, self.vis, self.table, self.ndx, self.value, self.size)


_SYM_RE = re.compile(r"^\s*(\d+):\s+([0-9a-fA-F]+)\s+(\S+)\s+(\S+)\s+(\S+)\s+(\S+)(?:\s+\[[^\]]*\])?\s+(\S+)(?:\s(.*))?$")


def _run(args):
    r = subprocess.run(["readelf"] + args, stdout=subprocess.PIPE, stderr=subprocess.PIPE)
    return r.stdout.decode("utf-8", "surrogateescape")


def header(path):
    out = _run(["-W", "-h", path])
    m = re.search(r"Type:\s+(\S+)", out)
    return {"type": m.group(1) if m else "?"}


def sections(path):
    out = _run(["-W", "-S", path])
    secs = []
    for line in out.splitlines():
        m = re.match(r"\s*\[\s*(\d+)\]\s+(\S*)\s+(\S+)\s+([0-9a-f]+)\s+([0-9a-f]+)\s+([0-9a-f]+)", line)
        if m:
            secs.append({"index": int(m.group(1)), "name": m.group(2), "type": m.group(3), "size": int(m.group(6), 16)})
    return secs


def symbols(path, table):
    """table: 'dynsym' or 'symtab'."""
    out = _run(["-W", "--dyn-syms" if table == "dynsym" else "-s", path])
    syms = []
    cur = None
    for line in out.splitlines():
        m = re.match(r"Symbol table '([^']+)'", line)
        if m:
            cur = m.group(1).lstrip(".")
            continue
        if cur != table:
            continue
        m = _SYM_RE.match(line)
        if not m:
            continue
        s = Sym()
        s.table = table
        s.value = int(m.group(2), 16)
        sz = m.group(3)
        s.size = int(sz, 16) if sz.startswith("0x") else int(sz)
        s.type, s.bind, s.vis, s.ndx = m.group(4), m.group(5), m.group(6), m.group(7)
        nm = (m.group(8) or "").strip()
        # strip readelf's " (N)" version-index suffix for undefined symbols
        nm = re.sub(r" \(\d+\)$", "", nm)
        s.version, s.is_default = None, False
        if "@@" in nm:
            s.name, s.version = nm.split("@@", 1)
            s.is_default = True
        elif "@" in nm:
            s.name, s.version = nm.split("@", 1)
        else:
            s.name = nm
        syms.append(s)
    return syms


def relevant_table(path):
    """The statement's 'relevant symbol table': .dynsym for a shared object / PIE that has one,
    .symtab for relocatable objects and for executables/objects without .dynsym."""
    secs = {s["name"] for s in sections(path)}
    typ = header(path)["type"]
    if typ == "DYN" and ".dynsym" in secs:
        return "dynsym"
    if typ == "EXEC" and ".dynsym" in secs and ".symtab" not in secs:
        return "dynsym"
    if ".symtab" in secs:
        return "symtab"
    return "dynsym"


def is_public_defined(s):
    return (s.ndx not in ("UND",) and s.bind in ("GLOBAL", "WEAK", "UNIQUE") and s.vis in ("DEFAULT", "PROTECTED")
            and s.type in ("FUNC", "IFUNC", "OBJECT", "TLS", "COMMON", "NOTYPE") and s.name != "")


def public_symbols(path, table=None):
    """Public defined function / variable symbols: (functions, variables)."""
    table = table or relevant_table(path)
    fns, vs = [], []
    for s in symbols(path, table):
        if not is_public_defined(s):
            continue
        if s.ndx == "ABS":
            continue    # version definition markers (VERS_1 ...) and other absolute symbols are not data
        if s.type in ("FUNC", "IFUNC"):
            fns.append(s)
        elif s.type in ("OBJECT", "TLS", "COMMON") or s.ndx == "COM":
            vs.append(s)
    return fns, vs


def selftest():
    m = _SYM_RE.match("     5: 000000000000111f     1 FUNC    GLOBAL DEFAULT   11 f_a277_111@@VERS_A277_1")
    assert m and m.group(8) == "f_a277_111@@VERS_A277_1"
    m = _SYM_RE.match("     1: 0000000000000000     0 FUNC    GLOBAL DEFAULT  UND __cxa_finalize@GLIBC_2.2.5 (2)")
    assert m and m.group(7) == "UND"
