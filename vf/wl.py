"""Workload helpers shared by the CLI-oracle checks."""
import os
import re

from . import progen, cc, run, core

MATRIX_FAMILY = ["gcc", "clang"]
MATRIX_DWARF = [4, 5]
MATRIX_OPT = ["-O0", "-O1"]


def pick_config(rng, kinds=("so", "so", "so", "exec", "rel"), langs=("c",)):
    return {
        "family": rng.choice(MATRIX_FAMILY),
        "dwarf": rng.choice(MATRIX_DWARF),
        "opt": rng.choice(MATRIX_OPT),
        "kind": rng.choice(kinds),
    }


def gen_opts(rng, tier, lang="c", **kw):
    big = tier == "thorough"
    o = progen.GenOpts(
        lang=lang,
        ntypes=rng.randint(3, 22 if big else 14),
        nfuncs=rng.randint(1, 14 if big else 8),
        nvars=rng.randint(0, 6 if big else 4),
        ntus=rng.choice([1, 1, 2, 3, 4] if big else [1, 1, 2, 3]),
    )
    o.__dict__.update(kw)
    return o


def nontrivial_corpus(prog, min_types=3):
    ifaces = prog.exported_functions() + prog.exported_variables()
    if not ifaces:
        return False
    seen = set()
    for i in ifaces:
        for t in prog.interface_types(i):
            seen.add(id(t))
    return len(seen) >= min_types


def describe_cfg(cfg):
    return "%s -gdwarf-%d %s %s" % (cfg["family"], cfg["dwarf"], cfg["opt"], cfg["kind"])


def tool_run(ctx, tool, args, cwd, flavor=None, timeout=120, env=None):
    return run.run([ctx.tool(tool, flavor)] + list(args), cwd=cwd, timeout=timeout, home=ctx.home(), env=env)


def abidw(ctx, binary, out, args=(), cwd=None, flavor=None):
    """Run abidw --out-file; returns the run Result (caller checks)."""
    return tool_run(ctx, "abidw", list(args) + ["--out-file", out, binary], cwd or os.path.dirname(binary), flavor)


def report_feature(text):
    """A small, line-number-free feature of an abidiff report used in violation keys."""
    feats = []
    m = re.search(r"Functions changes summary: (\d+) Removed(?: \(\d+ filtered out\))?, (\d+) Changed(?: \(\d+ filtered out\))?, (\d+) Added", text)
    if m:
        for n, w in zip(m.groups(), ("fn-removed", "fn-changed", "fn-added")):
            if int(n):
                feats.append(w)
    m = re.search(r"Variables changes summary: (\d+) Removed(?: \(\d+ filtered out\))?, (\d+) Changed(?: \(\d+ filtered out\))?, (\d+) Added", text)
    if m:
        for n, w in zip(m.groups(), ("var-removed", "var-changed", "var-added")):
            if int(n):
                feats.append(w)
    m = re.search(r"Function symbols changes summary: (\d+) Removed(?: \(\d+ filtered out\))?, (\d+) Added", text)
    if m:
        for n, w in zip(m.groups(), ("fsym-removed", "fsym-added")):
            if int(n):
                feats.append(w)
    m = re.search(r"Variable symbols changes summary: (\d+) Removed(?: \(\d+ filtered out\))?, (\d+) Added", text)
    if m:
        for n, w in zip(m.groups(), ("vsym-removed", "vsym-added")):
            if int(n):
                feats.append(w)
    if "Unreachable types summary" in text:
        feats.append("unreachable-types")
    if "Leaf changes summary" in text:
        feats.append("leaf")
    if "SONAME changed" in text:
        feats.append("soname")
    if "architecture changed" in text:
        feats.append("arch")
    if not feats:
        feats.append("empty" if not text.strip() else "other-text")
    feats.extend(anonymous_markers(text))
    return "+".join(feats)


def anonymous_markers(text):
    """Does the report talk about anonymous types in compound positions?  (A family of reader defects of its own.)"""
    out = []
    if re.search(r"\b(const|volatile|restrict) __anonymous_(struct|union|enum)__", text):
        out.append("qualified-anonymous-type")
    if re.search(r"__anonymous_(struct|union|enum)__\d*\s*\*", text):
        out.append("pointer-to-anonymous-type")
    if re.search(r"__anonymous_(struct|union|enum)__\d*\s*\[", text):
        out.append("array-of-anonymous-type")
    return out


def abnormal_violation(r, res, what):
    """Record an abnormal termination of a tool as a violation of the running check."""
    r.violate(res.key, "%s: %s terminated abnormally (%s)" % (what, os.path.basename(res.argv[0]), res.key), run=res.brief())


class Unconfirmed(Exception):
    """A wall-clock timeout that could not be turned into a witnessed hang."""


def run_must_terminate(ctx, tool, args, cwd, flavor=None, quick_timeout=20, confirm_timeout=100, env=None):
    """Run a tool that must terminate.  A timeout is re-run once alone with a much larger budget; only a
    *confirmed* hang is returned as such (res.kind == 'timeout', res.key = 'hang:<tool>:<frame>')."""
    res = tool_run(ctx, tool, args, cwd, flavor, timeout=quick_timeout, env=env)
    if not res.timeout:
        return res, False
    res2 = tool_run(ctx, tool, args, cwd, flavor, timeout=confirm_timeout, env=env)
    if not res2.timeout:
        return res2, False
    # witness: innermost libabigail frame of the spinning process
    frame = hang_frame([ctx.tool(tool, flavor)] + list(args), cwd, ctx.home())
    res2.kind = "timeout"
    res2.key = "hang:%s:%s" % (tool, frame)
    if frame == "?":
        # no libabigail frame could be named for the spinning process: on a loaded machine (sanitizer builds are 10-20x
        # slower) this is a slow run, not a witnessed hang - inconclusive, never a violation
        raise Unconfirmed("timeout of %s without an identifiable spinning frame" % tool)
    return res2, True


def hang_frame(argv, cwd, home):
    import subprocess
    import time
    import signal
    env = dict(run.BASE_ENV)
    env["HOME"] = home
    try:
        p = subprocess.Popen(argv, cwd=cwd, env=env, stdout=subprocess.DEVNULL, stderr=subprocess.DEVNULL, stdin=subprocess.DEVNULL)
    except OSError:
        return "?"
    time.sleep(4)
    frame = "?"
    try:
        g = subprocess.run(["gdb", "-batch", "-p", str(p.pid), "-ex", "bt 30"], stdout=subprocess.PIPE, stderr=subprocess.DEVNULL, timeout=120)
        for line in g.stdout.decode(errors="replace").splitlines():
            m = re.match(r"#\d+\s+(?:0x[0-9a-f]+ in )?([\w:~<>]+)", line)
            if m and ("abigail" in m.group(1) or m.group(1) == "main"):
                frame = run._clean_fn(m.group(1))
                break
    except Exception:
        pass
    finally:
        try:
            p.send_signal(signal.SIGKILL)
            p.wait(timeout=10)
        except Exception:
            pass
    return frame
