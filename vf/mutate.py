"""Mutation catalogs over the program *model* (vf/progen): the ABI effect of a mutation is known by
construction, not inferred from tool output.

Every mutator takes (prog, rng) and returns (new_prog, Expect) or None when it does not apply.
"""
import copy

from . import progen
from .progen import (Record, Enum, Typedef, Field, Builtin, Pointer, Array, Qualified, FuncType, Void, Function, Variable)


class Expect(object):
    def __init__(self, kind, **kw):
        self.kind = kind
        self.affected = []          # names of exported interfaces whose ABI is affected
        self.removed = []           # names of removed exported symbols
        self.added = []
        self.type_name = None       # mutated type (key)
        self.detail = ""
        self.needs_layout_change = False    # guard: probe must confirm some size/offset change of type_name
        self.entity = None          # name of the mutated member / enumerator ... (for --harmless reports)
        self.nested = False         # the mutated member list belongs to an anonymous member of the named record
        self.__dict__.update(kw)

    def to_json(self):
        return {k: v for k, v in self.__dict__.items()}


def _mutable_records(prog):
    """Named, defined records reachable from >=1 exported interface (not through opaque records)."""
    out = []
    for t in prog.types:
        if isinstance(t, Record) and not t.opaque and t.name and getattr(t, "where", "public") in ("public", "private"):
            users = prog.users_of(t)
            if users:
                out.append((t, users))
    return out


def _by_name(prog, name):
    return prog.find_type(name)


# Checks whose oracle does not depend on *how* a union change is classified (metamorphic ones) may switch this off
STRUCTS_ONLY = True


def _all_field_lists(rec, structs_only=None):
    """rec and its anonymous member types (their .fields are mutable lists).  With structs_only, unions are
    left out: adding / removing / retyping a member of a union without changing the union's size is classified
    *harmless* by the documentation (and filtered by default), so its effect is not certain enough for C05."""
    if structs_only is None:
        structs_only = STRUCTS_ONLY
    if rec.kind == "union" and structs_only:
        # nothing below a union either: a change that leaves the union's size alone is a documented harmless change
        return []
    out = [rec]
    for f in rec.fields:
        if isinstance(f.type, Record) and f.type.name is None:
            out.extend(_all_field_lists(f.type, structs_only))
    return out


def _fresh_member(prog, rng, tag):
    return "mm_%s_%s%d" % (prog.nonce, tag, rng.randrange(1000))


def _pick_record(prog, rng):
    cands = _mutable_records(prog)
    if not cands:
        return None, None
    t, users = rng.choice(cands)
    return t, users


# ------------------------------------------------------------------ breaking catalog

def m_append_member(prog, rng):
    t, users = _pick_record(prog, rng)
    if t is None or getattr(t, "flex", False):
        return None
    q = prog.clone()
    t2 = q.find_type(t.name)
    hs = _all_field_lists(t2)
    if not hs:
        return None
    holder = rng.choice(hs)
    if getattr(holder, "flex", False):
        return None
    nm = _fresh_member(q, rng, "a")
    holder.fields.append(Field(nm, Builtin(rng.choice(["long", "double", "int", "char", "short"]))))
    return q, Expect("append-member", affected=[u.name for u in users], type_name=t.key(), entity=nm, nested=holder is not t2)


def m_insert_member(prog, rng):
    t, users = _pick_record(prog, rng)
    if t is None:
        return None
    q = prog.clone()
    t2 = q.find_type(t.name)
    hs = _all_field_lists(t2)
    if not hs:
        return None
    holder = rng.choice(hs)
    if len(holder.fields) < 1:
        return None
    pos = rng.randrange(0, len(holder.fields))
    nm = _fresh_member(q, rng, "i")
    holder.fields.insert(pos, Field(nm, Builtin(rng.choice(["long", "double", "int", "char", "short"]))))
    return q, Expect("insert-member", affected=[u.name for u in users], type_name=t.key(), entity=nm, nested=holder is not t2)


def m_remove_member(prog, rng):
    t, users = _pick_record(prog, rng)
    if t is None:
        return None
    q = prog.clone()
    t2 = q.find_type(t.name)
    holders = [h for h in _all_field_lists(t2) if len([f for f in h.fields if f.name and not f.static]) >= 2]
    if not holders:
        return None
    holder = rng.choice(holders)
    named = [f for f in holder.fields if f.name and not f.static and not (isinstance(f.type, Array) and None in f.type.dims)]
    if len(named) < 2:
        return None
    victim = rng.choice(named)
    holder.fields.remove(victim)
    return q, Expect("remove-member", affected=[u.name for u in users], type_name=t.key(), entity=victim.name, nested=holder is not t2)


def m_reorder_members(prog, rng):
    t, users = _pick_record(prog, rng)
    if t is None or t.kind == "union":
        return None
    q = prog.clone()
    t2 = q.find_type(t.name)
    holders = [h for h in _all_field_lists(t2) if h.kind != "union"]
    if not holders:
        return None
    holder = rng.choice(holders)
    idx = [k for k in range(len(holder.fields) - 1)
           if holder.fields[k].name and holder.fields[k + 1].name and not holder.fields[k].static and not holder.fields[k + 1].static
           and holder.fields[k].bits is None and holder.fields[k + 1].bits is None
           and not (isinstance(holder.fields[k + 1].type, Array) and None in holder.fields[k + 1].type.dims)]
    if not idx:
        return None
    k = rng.choice(idx)
    holder.fields[k], holder.fields[k + 1] = holder.fields[k + 1], holder.fields[k]
    return q, Expect("reorder-members", affected=[u.name for u in users], type_name=t.key(),
                     entity=holder.fields[k].name, needs_layout_change=True)


_SIZES = {"char": 1, "signed char": 1, "unsigned char": 1, "short": 2, "unsigned short": 2, "int": 4, "unsigned int": 4,
          "long": 8, "unsigned long": 8, "long long": 8, "unsigned long long": 8, "float": 4, "double": 8, "_Bool": 1}


def m_change_member_type(prog, rng):
    t, users = _pick_record(prog, rng)
    if t is None:
        return None
    q = prog.clone()
    t2 = q.find_type(t.name)
    hs = _all_field_lists(t2)
    if not hs:
        return None
    holder = rng.choice(hs)
    cands = [f for f in holder.fields if f.name and f.bits is None and isinstance(f.type, Builtin) and not f.static]
    if not cands:
        return None
    f = rng.choice(cands)
    old = f.type.name
    # a builtin of a different size, or of the same size and the other kind (integer <-> floating point): neither a
    # compatible typedef nor a mere signedness tweak
    fp = ("float", "double")
    new = rng.choice([b for b in _SIZES if _SIZES[b] != _SIZES[old] or ((b in fp) != (old in fp))])
    f.type = Builtin(new)
    return q, Expect("change-member-type", affected=[u.name for u in users], type_name=t.key(), entity=f.name,
                     detail="%s -> %s" % (old, new), nested=holder is not t2)


def m_change_enumerator_value(prog, rng):
    cands = []
    for t in prog.types:
        if isinstance(t, Enum):
            users = prog.users_of(t)
            if users:
                cands.append((t, users))
    if not cands:
        return None
    t, users = rng.choice(cands)
    q = prog.clone()
    t2 = q.find_type(t.name)
    k = rng.randrange(len(t2.enumerators))
    used = {v for _n, v in t2.enumerators}
    nv = t2.enumerators[k][1] + 1000
    if nv >= 2 ** 63:
        nv = t2.enumerators[k][1] - 1000
    while nv in used:
        nv += 1
    nm = t2.enumerators[k][0]
    t2.enumerators[k] = (nm, nv)
    return q, Expect("change-enumerator-value", affected=[u.name for u in users], type_name=t.key(), entity=nm)


def _sig_candidates(prog):
    return [f for f in prog.exported_functions() if not f.version and not f.aliases]


def m_add_param(prog, rng):
    c = [f for f in _sig_candidates(prog) if not f.ftype.variadic]
    if not c:
        return None
    f = rng.choice(c)
    q = prog.clone()
    f2 = [x for x in q.functions if x.name == f.name][0]
    pos = rng.randrange(len(f2.ftype.params) + 1)
    f2.ftype.params.insert(pos, Builtin(rng.choice(["int", "long", "double", "char"])))
    f2.pnames.insert(pos, "pp_%s_%d" % (q.nonce, rng.randrange(1000)))
    return q, Expect("add-param", affected=[f.name])


def m_remove_param(prog, rng):
    c = [f for f in _sig_candidates(prog) if len(f.ftype.params) >= 1 and not (f.ftype.variadic and len(f.ftype.params) == 1)]
    if not c:
        return None
    f = rng.choice(c)
    q = prog.clone()
    f2 = [x for x in q.functions if x.name == f.name][0]
    pos = rng.randrange(len(f2.ftype.params))
    del f2.ftype.params[pos]
    del f2.pnames[pos]
    return q, Expect("remove-param", affected=[f.name])


def _category(t):
    t = progen.resolve(t)
    if isinstance(t, Void):
        return "void"
    if isinstance(t, Builtin):
        return ("fp%d" if t.name in ("float", "double") else "int%d") % _SIZES[t.name]
    if isinstance(t, Pointer):
        return "ptr"
    if isinstance(t, Enum):
        return "int4"
    return "aggregate:" + (getattr(t, "name", None) or "anonymous@%x" % id(t)) if hasattr(t, "name") else "other"


def m_change_return_type(prog, rng):
    c = _sig_candidates(prog)
    if not c:
        return None
    f = rng.choice(c)
    q = prog.clone()
    f2 = [x for x in q.functions if x.name == f.name][0]
    old = f2.ftype.ret
    oldk = progen.expanded_key(old)
    choices = [Void(), Builtin("int"), Builtin("double"), Builtin("long"), Pointer(Builtin("char")), Builtin("unsigned char")]
    # the new type must be of another *category* (void / integer of another size / floating / pointer / aggregate):
    # e.g. 'const char*' -> 'char*' is not certain to be reported as an ABI change
    choices = [c2 for c2 in choices if _category(c2) != _category(old)]
    # avoid changes that are only a compatible-typedef / signedness-preserving rename: pick a different size class or void
    f2.ftype.ret = rng.choice(choices)
    return q, Expect("change-return-type", affected=[f.name], detail="%s -> %s" % (oldk, progen.expanded_key(f2.ftype.ret)))


def m_remove_function(prog, rng):
    c = [f for f in prog.exported_functions() if not f.aliases and f.visibility != "hidden"]
    if len(c) < 2:
        return None
    f = rng.choice(c)
    q = prog.clone()
    q.functions = [x for x in q.functions if x.name != f.name]
    return q, Expect("remove-function", affected=[f.name], removed=[f.name])


def m_remove_variable(prog, rng):
    c = [v for v in prog.exported_variables() if not v.aliases and v.visibility != "hidden"]
    if not c or len(prog.exported_functions()) + len(c) < 2:
        return None
    v = rng.choice(c)
    q = prog.clone()
    q.variables = [x for x in q.variables if x.name != v.name]
    return q, Expect("remove-variable", affected=[v.name], removed=[v.name])


BREAKING = {
    "append-member": m_append_member,
    "insert-member": m_insert_member,
    "remove-member": m_remove_member,
    "reorder-members": m_reorder_members,
    "change-member-type": m_change_member_type,
    "change-enumerator-value": m_change_enumerator_value,
    "add-param": m_add_param,
    "remove-param": m_remove_param,
    "change-return-type": m_change_return_type,
    "remove-function": m_remove_function,
    "remove-variable": m_remove_variable,
}

# ------------------------------------------------------------------ neutral catalog


def n_change_bodies(prog, rng):
    q = prog.clone()
    fs = q.functions
    if not fs:
        return None
    for f in rng.sample(fs, rng.randint(1, len(fs))):
        f.body_seed = rng.randint(1, 10 ** 6)
    return q, Expect("change-bodies")


def n_rename_params(prog, rng):
    q = prog.clone()
    fs = [f for f in q.functions if f.pnames]
    if not fs:
        return None
    for f in rng.sample(fs, rng.randint(1, len(fs))):
        f.pnames = ["%s_r%d" % (n, rng.randrange(100)) for n in f.pnames]
    return q, Expect("rename-params")


def n_reorder_definitions(prog, rng):
    q = prog.clone()
    q.order_seed = rng.randint(1, 10 ** 6)
    return q, Expect("reorder-definitions")


def n_move_between_tus(prog, rng):
    if prog.ntus < 2:
        return None
    q = prog.clone()
    movable = [x for x in q.functions + q.variables if x.linkage == "exported" and not getattr(x, "common", False)]
    if not movable:
        return None
    for x in rng.sample(movable, rng.randint(1, min(3, len(movable)))):
        x.tu = rng.choice([t for t in range(q.ntus) if t != x.tu])
    return q, Expect("move-between-tus")


def n_shift_lines(prog, rng):
    q = prog.clone()
    for tu in range(q.ntus):
        q.prelude[tu] = q.prelude.get(tu, 0) + rng.randint(1, 9)
    return q, Expect("shift-lines")


def n_add_statics(prog, rng):
    q = prog.clone()
    for k in range(rng.randint(1, 3)):
        tu = rng.randrange(q.ntus)
        n = "verif_st_%s_%d" % (q.nonce, rng.randrange(10 ** 6))
        if rng.random() < 0.5:
            q.statics.append((tu, "static int %s(int x) { return x * %d; }\nstatic int (*volatile %s_keep)(int) = %s;" % (n, k + 2, n, n)))
        else:
            q.statics.append((tu, "static volatile long %s = %d;" % (n, k + 5)))
    return q, Expect("add-statics")


def n_remove_statics(prog, rng):
    if not prog.statics:
        return None
    q = prog.clone()
    q.statics = q.statics[:-1]
    return q, Expect("remove-statics")


def n_add_unused_types(prog, rng):
    q = prog.clone()
    g = progen.Gen(rng, progen.GenOpts(lang=q.lang), q.nonce + "u")
    g.p = q
    g.k = 100000 + rng.randrange(10000)
    before = len(q.types)
    for k in range(rng.randint(1, 3)):
        g.gen_record() if rng.random() < 0.7 else g.gen_enum()
    # make sure the new types are *unused*: they are only defined in the header
    return q, Expect("add-unused-types", detail="%d types" % (len(q.types) - before))


NEUTRAL = {
    "change-bodies": n_change_bodies,
    "rename-params": n_rename_params,
    "reorder-definitions": n_reorder_definitions,
    "move-between-tus": n_move_between_tus,
    "shift-lines": n_shift_lines,
    "add-statics": n_add_statics,
    "remove-statics": n_remove_statics,
    "add-unused-types": n_add_unused_types,
}

# ------------------------------------------------------------------ harmless catalog (C subset; C++ ones in cxx extension)


def h_append_enumerator(prog, rng):
    cands = []
    for t in prog.types:
        if isinstance(t, Enum):
            users = prog.users_of(t)
            if users:
                cands.append((t, users))
    if not cands:
        return None
    t, users = rng.choice(cands)
    q = prog.clone()
    t2 = q.find_type(t.name)
    mx = max(v for _n, v in t2.enumerators)
    if mx >= 2 ** 63 - 1:
        return None
    nm = "E_%s_NEW%d" % (q.nonce.upper(), rng.randrange(1000))
    t2.enumerators.append((nm, mx + 1))
    return q, Expect("append-enumerator", affected=[u.name for u in users], type_name=t.key(), entity=nm)


def _defines_anonymous(t):
    while isinstance(t, (progen.Pointer, progen.Qualified, progen.Array)):
        t = t.elem if isinstance(t, progen.Array) else t.to
    return isinstance(t, (Record, Enum)) and t.name is None


def h_rename_typedef(prog, rng):
    """A parameter / member declared with typedef T is re-declared with typedef T2 of the same underlying type."""
    cands = []
    for f in prog.exported_functions():
        for k, p in enumerate(f.ftype.params):
            # (a typedef whose target is an anonymous struct / enum defined in place *names* that type: declaring a second
            # one would define a second, distinct type - not a harmless rename)
            if isinstance(p, Typedef) and not isinstance(progen.resolve(p), (FuncType,)) and not _defines_anonymous(p.to):
                cands.append((f, k))
    if not cands:
        return None
    f, k = rng.choice(cands)
    q = prog.clone()
    f2 = [x for x in q.functions if x.name == f.name][0]
    old = f2.ftype.params[k]
    new = Typedef("%s_renamed" % old.name, old.to)
    idx = q.types.index(q.find_type(old.name))
    q.types.insert(idx + 1, new)
    f2.ftype.params[k] = new
    return q, Expect("rename-typedef", affected=[f.name], entity=new.name, detail="%s -> %s" % (old.name, new.name))


def h_param_top_cv(prog, rng):
    cands = []
    for f in prog.exported_functions():
        for k, p in enumerate(f.ftype.params):
            # a top-level qualifier can be added to a parameter of any object type; through a typedef only when the
            # typedef does not name an array or function type (there the qualifier would apply to the elements / be invalid)
            if isinstance(p, (Builtin, Pointer, Enum)) or (isinstance(p, Record) and p.name) \
                    or (isinstance(p, Typedef) and isinstance(progen.resolve(p), (Builtin, Pointer, Enum))):
                cands.append((f, k))
    if not cands:
        return None
    # parameters declared through a typedef are rare in generated programs: prefer them half of the time
    tdc = [c for c in cands if isinstance(c[0].ftype.params[c[1]], Typedef)]
    f, k = rng.choice(tdc if tdc and rng.random() < 0.5 else cands)
    q = prog.clone()
    f2 = [x for x in q.functions if x.name == f.name][0]
    const, volatile = rng.choice([(True, False), (True, False), (False, True), (True, True)])
    f2.ftype.params[k] = Qualified(f2.ftype.params[k], const=const, volatile=volatile)
    return q, Expect("param-top-cv", affected=[f.name], entity=f2.pnames[k],
                     detail="%s%s on %s" % ("const " if const else "", "volatile" if volatile else "", type(f.ftype.params[k]).__name__))


HARMLESS = {
    "append-enumerator": h_append_enumerator,
    "rename-typedef": h_rename_typedef,
    "param-top-cv": h_param_top_cv,
}


# ------------------------------------------------------------------ additive catalog (ABI-compatible additions)


def a_add_function(prog, rng):
    q = prog.clone()
    g = progen.Gen(rng, progen.GenOpts(lang=q.lang), q.nonce)
    g.p = q
    g.k = 200000 + rng.randrange(100000)
    f = g.gen_function()
    return q, Expect("add-function", affected=[f.name], added=[f.name])


def a_add_variable(prog, rng):
    q = prog.clone()
    g = progen.Gen(rng, progen.GenOpts(lang=q.lang), q.nonce)
    g.p = q
    g.k = 300000 + rng.randrange(100000)
    v = g.gen_variable()
    return q, Expect("add-variable", affected=[v.name], added=[v.name])


ADDITIVE = {"add-function": a_add_function, "add-variable": a_add_variable}

# ------------------------------------------------------------------ symbol-level catalog (shared objects only)


def s_add_default_version(prog, rng):
    c = [f for f in prog.exported_functions() if not f.version and not f.weak and not f.visibility]
    if not c:
        return None
    f = rng.choice(c)
    q = prog.clone()
    f2 = [x for x in q.functions if x.name == f.name][0]
    f2.version = ("VERS_%s_1" % q.nonce.upper(), True)
    return q, Expect("add-default-version", affected=[f.name])


def s_change_version_node(prog, rng):
    c = [f for f in prog.exported_functions() if f.version and f.version[1]]
    if not c:
        return None
    f = rng.choice(c)
    q = prog.clone()
    f2 = [x for x in q.functions if x.name == f.name][0]
    f2.version = ("VERS_%s_9" % q.nonce.upper(), True)
    return q, Expect("change-version-node", affected=[f.name], removed=[f.name], added=[f.name])


def s_add_default_version_variable(prog, rng):
    c = [v for v in prog.exported_variables() if not v.version and not v.weak and not v.visibility and not v.aliases and not v.common]
    if not c:
        return None
    v = rng.choice(c)
    q = prog.clone()
    v2 = [x for x in q.variables if x.name == v.name][0]
    v2.version = ("VERS_%s_1" % q.nonce.upper(), True)
    return q, Expect("add-default-version-variable", affected=[v.name])


def s_change_version_node_variable(prog, rng):
    c = [v for v in prog.exported_variables() if v.version and v.version[1]]
    if not c:
        return None
    v = rng.choice(c)
    q = prog.clone()
    v2 = [x for x in q.variables if x.name == v.name][0]
    v2.version = ("VERS_%s_9" % q.nonce.upper(), True)
    return q, Expect("change-version-node-variable", affected=[v.name], removed=[v.name], added=[v.name])


def s_add_old_version(prog, rng):
    """keep an older, non-default version of a default-versioned function (f@OLD next to f@@NEW)"""
    c = [f for f in prog.exported_functions() if f.version and f.version[1] and not f.aliases and not f.weak and not getattr(f, "old_versions", [])]
    if not c:
        return None
    f = rng.choice(c)
    q = prog.clone()
    f2 = [x for x in q.functions if x.name == f.name][0]
    f2.old_versions = ["VERS_%s_0" % q.nonce.upper()]
    return q, Expect("add-old-version", affected=[f.name], added=[f.name])


def s_drop_old_version(prog, rng):
    c = [f for f in prog.exported_functions() if f.version and f.version[1] and getattr(f, "old_versions", [])]
    if not c:
        return None
    f = rng.choice(c)
    q = prog.clone()
    f2 = [x for x in q.functions if x.name == f.name][0]
    f2.old_versions = []
    return q, Expect("drop-old-version", affected=[f.name], removed=[f.name])


def s_add_alias(prog, rng):
    c = [f for f in prog.exported_functions() if not f.version or f.version[1]]
    if not c:
        return None
    f = rng.choice(c)
    q = prog.clone()
    f2 = [x for x in q.functions if x.name == f.name][0]
    an = "%s_nal%d" % (f.name, rng.randrange(100))
    f2.aliases.append((an, False))
    return q, Expect("add-alias", affected=[f.name], added=[an])


def s_remove_alias(prog, rng):
    c = [f for f in prog.exported_functions() if f.aliases]
    if not c:
        return None
    f = rng.choice(c)
    q = prog.clone()
    f2 = [x for x in q.functions if x.name == f.name][0]
    an, _w = f2.aliases.pop()
    return q, Expect("remove-alias", affected=[f.name], removed=[an])


SYMBOL = {"add-default-version": s_add_default_version, "change-version-node": s_change_version_node,
          "add-alias": s_add_alias, "remove-alias": s_remove_alias,
          "add-default-version-variable": s_add_default_version_variable,
          "change-version-node-variable": s_change_version_node_variable,
          "add-old-version": s_add_old_version, "drop-old-version": s_drop_old_version}

# ------------------------------------------------------------------ layout-preserving member (un)naming


def x_name_anonymous_member(prog, rng):
    """'union { int i; float f; };' becomes 'union { int i; float f; } value;' (or the reverse): same layout, the
    data member changes from anonymous to named."""
    cands = []
    for t, users in _mutable_records(prog):
        for h in _all_field_lists(t, structs_only=False):
            for k, f in enumerate(h.fields):
                if isinstance(f.type, Record) and f.type.name is None and f.bits is None:
                    cands.append((t, users, id(h), k))
    if not cands:
        return None
    t, users, _hid, _k = rng.choice(cands)
    q = prog.clone()
    t2 = q.find_type(t.name)
    hs = []
    for h in _all_field_lists(t2, structs_only=False):
        for k, f in enumerate(h.fields):
            if isinstance(f.type, Record) and f.type.name is None and f.bits is None:
                hs.append((h, k))
    h, k = rng.choice(hs)
    f = h.fields[k]
    if f.name is None:
        f.name = "mm_%s_n%d" % (q.nonce, rng.randrange(1000))
        kind = "name-anonymous-member"
    else:
        f.name = None
        kind = "unname-member"
    return q, Expect(kind, affected=[u.name for u in users], type_name=t.key(), entity=f.name)


EXTRA = {"name-anonymous-member": x_name_anonymous_member}

MIXED = {}
MIXED.update(BREAKING)
MIXED.update(ADDITIVE)
MIXED.update(HARMLESS)


def apply_random(catalog, prog, rng, kinds=None, tries=8):
    names = list(kinds or catalog)
    for _ in range(tries):
        k = rng.choice(names)
        res = catalog[k](prog, rng)
        if res is not None:
            return res
    return None
