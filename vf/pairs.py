"""Program-pair workload shared by the comparison checks (C05..C13, C19, C22, C23 ...)."""
import os
from . import progen, cc, wl, mutate, layout, core


class Pair(object):
    pass


def make_pair(ctx, rng, d, catalog, kinds=None, nmut=1, lang="c", gen_kw=None, cfg=None, need_users=True, decorate=None):
    """Generate P, mutate it nmut times with `catalog`, build both with one configuration.
    Returns (Pair or None, skip_reason)."""
    for _attempt in range(6):
        opts = wl.gen_opts(rng, ctx.tier, lang=lang, **(gen_kw or {}))
        p = progen.generate(rng, opts)
        if decorate:
            decorate(p, rng)
        q = p
        expects = []
        for k in range(nmut):
            res = mutate.apply_random(catalog, q, rng, kinds)
            if res is None:
                break
            q, e = res
            expects.append(e)
        if expects:
            break
    if not expects:
        return None, "no-applicable-mutation"
    cfg = cfg or wl.pick_config(rng, kinds=("so", "so", "so", "exec", "rel"))
    pr = Pair()
    pr.p, pr.q, pr.expects, pr.cfg = p, q, expects, cfg
    try:
        pr.a = cc.build(p, os.path.join(d, "a"), **cfg)
        pr.b = cc.build(q, os.path.join(d, "b"), **cfg)
    except cc.CompileError as ex:
        return None, "compile-error:" + str(ex)[-300:]
    pr.digest = core.digest(progen.source_digest(progen.render(p)), progen.source_digest(progen.render(q)), cfg)
    return pr, None


def layout_changed(pr, d, type_key):
    """Probe both programs: did the size or any member offset of `type_key` change?"""
    la = layout.run_probe(pr.p, os.path.join(d, "a"), pr.cfg["family"], pr.cfg["opt"])
    lb = layout.run_probe(pr.q, os.path.join(d, "b"), pr.cfg["family"], pr.cfg["opt"])
    if la.size.get(type_key) != lb.size.get(type_key):
        return True
    return la.record(type_key) != lb.record(type_key)


def debug_info_differs(pr):
    return cc.section_digest(pr.a, (".debug_info", ".debug_str", ".debug_abbrev")) != cc.section_digest(pr.b, (".debug_info", ".debug_str", ".debug_abbrev"))
