"""Independent ABIXML reader (expat, not libxml2 / libabigail) + type-graph resolver."""
import re
import xml.parsers.expat

# attributes whose value is (a reference to) a type id / symbol id
TYPE_REF_ATTRS = ("type-id", "naming-typedef-id", "underlying-type-id")
KNOWN_ID_ATTRS = set(TYPE_REF_ATTRS) | {"id", "elf-symbol-id"}


class Node(object):
    __slots__ = ("tag", "attrs", "children", "parent", "line")

    def __init__(self, tag, attrs, parent, line):
        self.tag, self.attrs, self.children, self.parent, self.line = tag, attrs, [], parent, line

    def find(self, tag):
        return [c for c in self.children if c.tag == tag]

    def first(self, tag):
        for c in self.children:
            if c.tag == tag:
                return c
        return None

    def walk(self):
        yield self
        for c in self.children:
            for x in c.walk():
                yield x


class ParseError(Exception):
    pass


def parse(data):
    """data: bytes.  Returns the root Node; raises ParseError when expat rejects the document."""
    p = xml.parsers.expat.ParserCreate()
    root = [None]
    stack = []

    def start(tag, attrs):
        n = Node(tag, attrs, stack[-1] if stack else None, p.CurrentLineNumber)
        if stack:
            stack[-1].children.append(n)
        else:
            root[0] = n
        stack.append(n)

    def end(tag):
        stack.pop()

    p.StartElementHandler = start
    p.EndElementHandler = end
    try:
        p.Parse(data, True)
    except xml.parsers.expat.ExpatError as ex:
        raise ParseError(str(ex))
    if root[0] is None:
        raise ParseError("no root element")
    return root[0]


def well_formed(data):
    try:
        parse(data)
        return True, ""
    except ParseError as ex:
        return False, str(ex)


class Doc(object):
    """One abi-corpus (or the first corpus of a group)."""

    def __init__(self, data):
        self.root = parse(data)
        self.corpora = [self.root] if self.root.tag == "abi-corpus" else self.root.find("abi-corpus")
        self.ids = {}           # type id -> [Node]
        self.unknown_id_attrs = set()
        self.fn_syms, self.var_syms = [], []
        self.functions, self.variables = [], []
        for n in self.root.walk():
            for a in n.attrs:
                if (a.endswith("-id") or a == "id") and a not in KNOWN_ID_ATTRS:
                    self.unknown_id_attrs.add(a)
            if "id" in n.attrs and n.tag != "elf-symbol":
                self.ids.setdefault(n.attrs["id"], []).append(n)
            if n.tag == "elf-symbol":
                if n.parent is not None and n.parent.tag == "elf-function-symbols":
                    self.fn_syms.append(n)
                elif n.parent is not None and n.parent.tag == "elf-variable-symbols":
                    self.var_syms.append(n)
            if n.tag == "function-decl" and n.parent is not None and n.parent.tag in ("abi-instr", "namespace-decl"):
                self.functions.append(n)
            if n.tag == "var-decl" and n.parent is not None and n.parent.tag in ("abi-instr", "namespace-decl"):
                self.variables.append(n)

    # ---------------------------------------------------------------- integrity
    def type_refs(self):
        for n in self.root.walk():
            for a in TYPE_REF_ATTRS:
                if a in n.attrs:
                    yield n, a, n.attrs[a]

    def symbol_ids(self):
        """Set of ids by which declarations may refer to the symbols listed in the symbol tables."""
        out = set()
        for s in self.fn_syms + self.var_syms:
            name = s.attrs.get("name", "")
            ver = s.attrs.get("version")
            names = [name]
            if s.attrs.get("alias"):
                names += s.attrs["alias"].split(",")
            for nm in names:
                # aliases are written as name or name@ver / name@@ver
                out.add(nm)
                if ver and "@" not in nm:
                    out.add("%s@@%s" % (nm, ver) if s.attrs.get("is-default-version") == "yes" else "%s@%s" % (nm, ver))
                    out.add("%s@%s" % (nm, ver))
                    out.add("%s@@%s" % (nm, ver))
        return out

    # ---------------------------------------------------------------- type resolver
    def node_of(self, tid):
        ns = self.ids.get(tid)
        return ns[0] if ns else None

    def expanded_key(self, tid, names=None, _depth=0):
        """Like type_key but with typedefs expanded; typedef names met on the way are appended to `names`."""
        from . import progen
        n = self.node_of(tid)
        if n is None or _depth > 60:
            return "?"
        t, a = n.tag, n.attrs
        if t == "typedef-decl":
            if names is not None:
                names.append(a.get("name", ""))
            return self.expanded_key(a["type-id"], names, _depth + 1)
        if t == "pointer-type-def":
            return "ptr(%s)" % self.expanded_key(a["type-id"], names, _depth + 1)
        if t == "qualified-type-def":
            return progen.qual_key(self.expanded_key(a["type-id"], names, _depth + 1), a.get("const") == "yes", a.get("volatile") == "yes")
        if t == "array-type-def":
            k = self.expanded_key(a["type-id"], names, _depth + 1)
            dims = []
            for sr in n.find("subrange"):
                ln = sr.attrs.get("length", "")
                dims.append("" if ln in ("infinite", "unknown") else ln)
            for d in reversed(dims):
                k = "array[%s](%s)" % (d, k)
            return k
        return self.type_key(tid, _depth)

    def type_key(self, tid, _depth=0):
        """Canonical type string in the same vocabulary as progen.Type.key()."""
        from . import progen
        n = self.node_of(tid)
        if n is None:
            return "?undefined(%s)" % tid
        if _depth > 60:
            return "?deep"
        t = n.tag
        a = n.attrs
        if t == "type-decl":
            nm = a.get("name", "")
            if nm == "void":
                return "void"
            if nm == "variadic parameter type":
                return "..."
            return progen.CANON_BUILTIN.get(nm, nm)
        if t == "pointer-type-def":
            return "ptr(%s)" % self.type_key(a["type-id"], _depth + 1)
        if t == "reference-type-def":
            return "%s(%s)" % ("rref" if a.get("kind") == "rvalue" else "ref", self.type_key(a["type-id"], _depth + 1))
        if t == "qualified-type-def":
            return progen.qual_key(self.type_key(a["type-id"], _depth + 1), a.get("const") == "yes", a.get("volatile") == "yes")
        if t == "typedef-decl":
            return "typedef:" + a.get("name", "")
        if t == "enum-decl":
            return "enum:" + a.get("name", "") if a.get("is-anonymous") != "yes" else "enum:<anon>"
        if t == "class-decl":
            return ("struct:" + a.get("name", "")) if a.get("is-anonymous") != "yes" else "struct:<anon>"
        if t == "union-decl":
            return ("union:" + a.get("name", "")) if a.get("is-anonymous") != "yes" else "union:<anon>"
        if t == "array-type-def":
            k = self.type_key(a["type-id"], _depth + 1)
            dims = []
            for sr in n.find("subrange"):
                ln = sr.attrs.get("length", "")
                dims.append("" if ln in ("infinite", "unknown") else ln)
            for d in reversed(dims):
                k = "array[%s](%s)" % (d, k)
            return k
        if t == "function-type":
            return self.fn_key(n, _depth + 1)
        if t == "subrange":
            return "subrange"
        return "?%s" % t

    def fn_key(self, n, _depth=0):
        ps = []
        variadic = False
        for p in n.find("parameter"):
            if p.attrs.get("is-variadic") == "yes":
                variadic = True
                continue
            if p.attrs.get("is-artificial") == "yes":
                ps.append("this:" + self.type_key(p.attrs["type-id"], _depth + 1))
                continue
            ps.append(self.type_key(p.attrs["type-id"], _depth + 1))
        ret = n.first("return")
        rk = self.type_key(ret.attrs["type-id"], _depth + 1) if ret is not None else "void"
        return "fn(%s;%s%s)" % (rk, ",".join(ps), ";..." if variadic else "")

    def strip_typedefs_node(self, tid):
        """Follow typedefs / qualifiers down to the underlying definition node."""
        seen = 0
        n = self.node_of(tid)
        while n is not None and n.tag in ("typedef-decl", "qualified-type-def") and seen < 50:
            n = self.node_of(n.attrs["type-id"])
            seen += 1
        return n

    def record_layout(self, n):
        """For a class-decl/union-decl node: (size_bits or None, {member_path: bit_offset}, {member_path: type-id}).
        Anonymous members are flattened with the offset of the anonymous member added."""
        size = int(n.attrs["size-in-bits"]) if "size-in-bits" in n.attrs else None
        offs, tys = {}, {}
        self._members(n, 0, offs, tys)
        return size, offs, tys

    def _members(self, n, base, offs, tys, depth=0):
        if depth > 10:
            return
        for dm in n.find("data-member"):
            if dm.attrs.get("static") == "yes":
                continue
            off = int(dm.attrs.get("layout-offset-in-bits", "0"))
            vd = dm.first("var-decl")
            if vd is None:
                continue
            nm = vd.attrs.get("name", "")
            if nm == "":
                inner = self.strip_typedefs_node(vd.attrs["type-id"])
                if inner is not None and inner.tag in ("class-decl", "union-decl"):
                    self._members(inner, base + off, offs, tys, depth + 1)
                continue
            offs[nm] = base + off
            tys[nm] = vd.attrs["type-id"]

    def size_of(self, tid, _depth=0):
        n = self.node_of(tid)
        if n is None or _depth > 50:
            return None
        if "size-in-bits" in n.attrs and n.tag != "function-type":
            v = n.attrs["size-in-bits"]
            return int(v) if v.isdigit() else None
        if n.tag in ("typedef-decl", "qualified-type-def"):
            return self.size_of(n.attrs["type-id"], _depth + 1)
        if n.tag == "enum-decl":
            u = n.first("underlying-type")
            return self.size_of(u.attrs["type-id"], _depth + 1) if u is not None else None
        return None


def selftest():
    d = Doc(b"<abi-corpus version='2.1'><elf-function-symbols><elf-symbol name='f' version='V' is-default-version='yes'/>"
            b"</elf-function-symbols><abi-instr><type-decl name='int' size-in-bits='32' id='t1'/>"
            b"<pointer-type-def type-id='t1' size-in-bits='64' id='t2'/><qualified-type-def type-id='t2' const='yes' id='t3'/>"
            b"<function-decl name='f' elf-symbol-id='f@@V'><parameter type-id='t3'/><return type-id='t1'/></function-decl>"
            b"</abi-instr></abi-corpus>")
    assert d.type_key("t3") == "const(ptr(int))", d.type_key("t3")
    assert "f@@V" in d.symbol_ids()
    assert d.fn_key(d.functions[0]) == "fn(int;const(ptr(int)))"
    ok, _ = well_formed(b"<a><b></a>")
    assert not ok
