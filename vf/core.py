"""Check driver: case fan-out, aggregation, known-findings matching, evidence, replay."""
import hashlib
import json
import multiprocessing
import os
import random
import shutil
import sys
import time
import traceback

from . import build

VERIF = build.VERIF
WORK = build.WORK
NPROC = int(os.environ.get("VERIF_JOBS", "16"))


def case_rng(seed, prop, index, salt=""):
    h = hashlib.sha256(("%s:%s:%s:%s" % (seed, prop, index, salt)).encode()).hexdigest()
    return random.Random(int(h, 16))


def digest(*parts):
    h = hashlib.sha256()
    for p in parts:
        if isinstance(p, str):
            p = p.encode("utf-8", "surrogateescape")
        elif not isinstance(p, (bytes, bytearray)):
            p = json.dumps(p, sort_keys=True, default=str).encode()
        h.update(p)
        h.update(b"\0")
    return h.hexdigest()[:16]


class Violation(object):
    def __init__(self, key, what, detail=None):
        self.key = key          # stable classifier key (without the property id)
        self.what = what        # one-line human description
        self.detail = detail or {}

    def to_json(self):
        return {"key": self.key, "what": self.what, "detail": self.detail}


class CaseResult(object):
    def __init__(self):
        self.status = "ok"          # ok | skip | inconclusive
        self.reason = ""
        self.nontrivial = False
        self.digest = None
        self.violations = []
        self.sample = None
        self.counters = {}
        self.sets = {}
        self.evaluations = 0

    def count(self, name, n=1):
        self.counters[name] = self.counters.get(name, 0) + n

    def add(self, setname, item):
        self.sets.setdefault(setname, set()).add(item)

    def violate(self, key, what, **detail):
        self.violations.append(Violation(key, what, detail))

    def skip(self, reason):
        self.status = "skip"
        self.reason = reason
        return self

    def inconclusive(self, reason):
        self.status = "inconclusive"
        self.reason = reason
        return self


class Ctx(object):
    """What a case function receives."""

    def __init__(self, prop, tier, seed, builds, rundir, replay=False):
        self.prop = prop
        self.tier = tier
        self.seed = seed
        self.builds = builds
        self.rundir = rundir
        self.replay = replay
        self.shared = {}

    def rng(self, index, salt=""):
        return case_rng(self.seed, self.prop, index, salt)

    def tool(self, name, flavor=None):
        fl = flavor or next(iter(self.builds))
        return os.path.join(self.builds[fl], "bin", name)

    def casedir(self, index):
        d = os.path.join(self.rundir, "case-%d" % index)
        shutil.rmtree(d, ignore_errors=True)
        os.makedirs(d)
        return d

    def home(self):
        d = os.path.join(self.rundir, "home")
        os.makedirs(d, exist_ok=True)
        return d


# ---------------------------------------------------------------- known findings

def load_known():
    known, fixed = {}, []
    p = os.path.join(VERIF, "known_findings.txt")
    if not os.path.exists(p):
        return known, fixed
    for line in open(p):
        line = line.strip()
        if not line or line.startswith("#"):
            continue
        if line.startswith("known:"):
            parts = line.split(None, 3)
            # known: property=Cxx key=<key> <what>
            prop = parts[1].split("=", 1)[1]
            key = parts[2].split("=", 1)[1]
            what = parts[3] if len(parts) > 3 else ""
            known[(prop, key)] = what
        elif line.startswith("fixed:"):
            fixed.append(line)
    return known, fixed


# ---------------------------------------------------------------- evidence

def write_evidence(prop, tier, seed, level, coverage, wall, violations, assumptions):
    ev = {"property_id": prop, "tier": tier, "seed": seed, "level": level,
          "coverage": coverage, "assumptions": assumptions, "wall_s": round(wall, 2),
          "violations": violations}
    # minimal self-validation of the schema's hard requirements
    assert isinstance(coverage.get("evaluations"), int)
    assert isinstance(coverage.get("distinct_nontrivial"), int)
    assert isinstance(coverage.get("rule"), str)
    assert isinstance(coverage.get("samples"), list)
    os.makedirs(os.path.join(VERIF, "evidence"), exist_ok=True)
    p = os.path.join(VERIF, "evidence", prop + ".json")
    tmp = p + ".tmp.%d" % os.getpid()
    with open(tmp, "w") as fh:
        json.dump(ev, fh, indent=1, sort_keys=True, default=str)
        fh.write("\n")
    os.replace(tmp, p)
    return p


# ---------------------------------------------------------------- worker

_G = {}


def _worker(index):
    mod, ctx = _G["mod"], _G["ctx"]
    t0 = time.time()
    try:
        from . import progen
        progen.LAST_FEATURES.clear()
        r = mod.case(ctx, index)
        if r is None:
            r = CaseResult().skip("none")
        # A generated program that contains constructs of a family with reader defects of its own (anonymous types in
        # compound positions, naming typedefs of anonymous types) says so in the key of every violation of its case:
        # findings of that family and findings on mainstream programs never share a key.
        if r.violations and progen.LAST_FEATURES:
            sfx = ":program-with-anonymous-type-constructs"
            for v in r.violations:
                v.family = sfx      # applied by the aggregator, unless the plain key is a known finding already
    except build.BuildError:
        raise
    except Exception as ex:
        r = CaseResult()
        if type(ex).__name__ == "Unconfirmed":
            # a wall-clock timeout without a witness: inconclusive, neither held nor violated
            r.inconclusive("timeout-without-witness: %s" % ex)
            r.wall = time.time() - t0
            r.index = index
            r.sets = {}
            return r
        r.status = "error"
        r.reason = traceback.format_exc()[-3000:]
    r.wall = time.time() - t0
    r.index = index
    # keep the case directory only when something is to be replayed
    d = os.path.join(ctx.rundir, "case-%d" % index)
    if not r.violations and not ctx.replay and r.status != "error":
        shutil.rmtree(d, ignore_errors=True)
    r.sets = {k: sorted(v) if isinstance(v, set) else v for k, v in r.sets.items()}
    return r


def save_replay(prop, tier, seed, r, v, rundir):
    kd = digest(prop, v.key)
    d = os.path.join(VERIF, "replays", prop, kd)
    if os.path.exists(os.path.join(d, "case.json")):
        return d  # keep the first witness per key
    os.makedirs(d, exist_ok=True)
    with open(os.path.join(d, "case.json"), "w") as fh:
        json.dump({"property": prop, "tier": tier, "seed": seed, "index": r.index,
                   "key": v.key, "what": v.what, "detail": v.detail}, fh, indent=1, default=str)
    src = os.path.join(rundir, "case-%d" % r.index)
    if os.path.isdir(src):
        # copy small files only
        total = 0
        for dp, dn, fn in os.walk(src):
            for f in fn:
                p = os.path.join(dp, f)
                try:
                    sz = os.path.getsize(p)
                except OSError:
                    continue
                if sz > 2_000_000 or total > 20_000_000:
                    continue
                total += sz
                rel = os.path.relpath(p, src)
                os.makedirs(os.path.dirname(os.path.join(d, "files", rel)), exist_ok=True)
                try:
                    shutil.copy2(p, os.path.join(d, "files", rel))
                except OSError:
                    pass
    return d


def run_check(mod, tier, seed, replay=None):
    prop = mod.PROP
    t0 = time.time()
    known, _fixed = load_known()
    builds = {}
    try:
        for fl in mod.FLAVORS:
            builds[fl] = build.get_build(fl)
    except build.BuildError as ex:
        print("HARNESS-ERROR property=%s %s" % (prop, ex))
        return 2
    rundir = os.path.join(WORK, "run", "%s-%d" % (prop, os.getpid()))
    shutil.rmtree(rundir, ignore_errors=True)
    os.makedirs(rundir)
    try:
        return _run_check(mod, prop, tier, seed, replay, known, builds, rundir, t0)
    finally:
        shutil.rmtree(rundir, ignore_errors=True)


def _run_check(mod, prop, tier, seed, replay, known, builds, rundir, t0):
    if replay:
        cj = json.load(open(os.path.join(replay, "case.json")))
        tier, seed = cj["tier"], cj["seed"]
        indices = [cj["index"]]
    ctx = Ctx(prop, tier, seed, builds, rundir, replay=bool(replay))
    plan = mod.plan(tier)
    if hasattr(mod, "prepare"):
        mod.prepare(ctx)
    if not replay:
        indices = list(range(plan["n"]))
    _G["mod"], _G["ctx"] = mod, ctx
    results = []
    nproc = min(NPROC, plan.get("procs", NPROC), max(1, len(indices)))
    if nproc == 1:
        for i in indices:
            results.append(_worker(i))
    else:
        with multiprocessing.Pool(nproc) as pool:
            for r in pool.imap_unordered(_worker, indices, chunksize=plan.get("chunk", 1)):
                results.append(r)
    results.sort(key=lambda r: r.index)

    # ---- aggregate
    evaluations = 0
    nontriv = set()
    counters = {}
    sets = {}
    samples = []
    status_hist = {}
    skip_reasons = {}
    viol_keys = {}
    errors = []
    for r in results:
        status_hist[r.status] = status_hist.get(r.status, 0) + 1
        evaluations += r.evaluations
        if r.status == "error":
            errors.append((r.index, r.reason))
            continue
        if r.status in ("skip", "inconclusive"):
            k = r.reason.split(":")[0][:60]
            skip_reasons[k] = skip_reasons.get(k, 0) + 1
        if r.nontrivial and r.status == "ok":
            nontriv.add(r.digest or ("idx%d" % r.index))
        for k, v in r.counters.items():
            counters[k] = counters.get(k, 0) + v
        for k, v in r.sets.items():
            sets.setdefault(k, set()).update(v)
        if r.sample is not None and len(samples) < plan.get("samples", 4) and r.status == "ok" and r.nontrivial:
            samples.append(r.sample)
        for v in r.violations:
            fam = getattr(v, "family", "")
            if fam and (prop, v.key) not in known and not v.key.endswith(fam):
                # oracle verdicts inside the family share ONE key per property (the many shapes one defect takes in
                # reports would otherwise yield an open-ended set of keys); crashes and sanitizer reports keep theirs
                v.key = ("oracle:%s:any%s" % (prop, fam)) if v.key.startswith("oracle:") else v.key + fam
            viol_keys.setdefault(v.key, []).append((r, v))
    n_nontriv = len(nontriv)
    if hasattr(mod, "count_nontrivial"):
        n_nontriv = int(mod.count_nontrivial([r for r in results if r.status == "ok"]))
    if hasattr(mod, "finish"):
        # whole-run oracles (e.g. C08 needs the union of all observations)
        extra = mod.finish(ctx, results)
        if extra:
            for key, what, detail in extra:
                rr = CaseResult()
                rr.index = -1
                viol_keys.setdefault(key, []).append((rr, Violation(key, what, detail)))

    # ---- report
    new_violation = False
    known_hit = {}
    out_lines = []
    for key in sorted(viol_keys):
        r, v = viol_keys[key][0]
        n = len(viol_keys[key])
        if (prop, key) in known:
            known_hit[key] = n
            out_lines.append("KNOWN-FINDING: property=%s key=%s %s (%d case%s)"
                             % (prop, key, known[(prop, key)], n, "" if n == 1 else "s"))
        else:
            new_violation = True
            d = save_replay(prop, tier, seed, r, v, rundir)
            out_lines.append("VIOLATION property=%s replay=%s" % (prop, d))
            out_lines.append("  violation-detail: key=%s :: %s (%d case%s)"
                             % (key, v.what, n, "" if n == 1 else "s"))
    nerr = len(errors)
    ncases = max(1, len(results))
    n_incon = status_hist.get("inconclusive", 0)
    n_skip = status_hist.get("skip", 0)
    floor = plan.get("floor", 2)
    verdict = "held"
    if new_violation:
        verdict = "violated"
    elif replay:
        verdict = "held"
    elif nerr > max(0, plan.get("max_errors", int(0.02 * ncases))):
        verdict = "inconclusive: %d harness errors" % nerr
    elif n_incon > plan.get("max_inconclusive", max(2, int(0.05 * ncases))):
        verdict = "inconclusive: %d inconclusive cases" % n_incon
    elif n_nontriv < floor:
        verdict = "inconclusive: only %d distinct non-trivial cases (floor %d)" % (n_nontriv, floor)

    wall = time.time() - t0
    if not replay:
        if not samples:
            for r in results:
                if r.sample is not None:
                    samples.append(r.sample)
                    break
        if not samples:
            samples = [{"note": "no sample recorded"}]
        cov = {
            "evaluations": int(evaluations),
            "distinct_nontrivial": n_nontriv,
            "rule": mod.rule(tier),
            "samples": samples,
            "cases": len(results),
            "case_status": status_hist,
            "skip_reasons": skip_reasons,
            "counters": counters,
            "distinct": {k: len(v) for k, v in sets.items()},
            "distinct_values": {k: sorted(v)[:40] for k, v in sets.items() if len(v) <= 400},
            "flavors": sorted(builds),
            "known_findings_hit": known_hit,
            "new_violation_keys": sorted(k for k in viol_keys if (prop, k) not in known),
            "harness_errors": nerr,
            "verdict": verdict,
        }
        if plan.get("exhaustive"):
            cov["exhaustive"] = True
        if hasattr(mod, "coverage_extra"):
            cov.update(mod.coverage_extra(ctx, results))
        write_evidence(prop, tier, seed, mod.LEVEL, cov, wall,
                       sum(len(v) for k, v in viol_keys.items()), mod.ASSUMPTIONS)
    for l in out_lines:
        print(l)
    for idx, reason in errors[:3]:
        sys.stderr.write("HARNESS-ERROR case %d:\n%s\n" % (idx, reason))
    print("%s tier=%s seed=%s cases=%d evaluations=%d nontrivial=%d skipped=%d inconclusive=%d errors=%d "
          "known=%d wall=%.0fs verdict=%s"
          % (prop, tier, seed, len(results), evaluations, n_nontriv, n_skip, n_incon, nerr,
             len(known_hit), wall, verdict))
    sys.stdout.flush()
    if new_violation:
        return 1
    if verdict != "held":
        return 2
    return 0
