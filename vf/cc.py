"""Compile generated programs into ELF binaries (shared object / PIE / relocatable)."""
import os
import subprocess

from . import progen


class CompileError(Exception):
    pass


def _run(argv, cwd):
    r = subprocess.run(argv, cwd=cwd, stdout=subprocess.PIPE, stderr=subprocess.STDOUT)
    if r.returncode != 0:
        raise CompileError("%s\n%s" % (" ".join(argv), r.stdout.decode(errors="replace")[-3000:]))
    return r


def compiler_for(lang, family):
    if lang == "c":
        return "gcc" if family == "gcc" else "clang"
    return "g++" if family == "gcc" else "clang++"


def build(prog, d, family="gcc", dwarf=4, opt="-O0", kind="so", out=None, debug=True, extra=(), ldextra=(),
          files=None, linker=None, strip_debug=False, srcdir=None, post_compile=None):
    """Render prog into directory d (or srcdir) and build it.  Returns the path of the binary."""
    os.makedirs(d, exist_ok=True)
    srcdir = srcdir or d
    os.makedirs(srcdir, exist_ok=True)
    files = files if files is not None else progen.render(prog)
    for fn, text in files.items():
        with open(os.path.join(srcdir, fn), "w") as fh:
            fh.write(text)
    cc = compiler_for(prog.lang, family)
    ext = "c" if prog.lang == "c" else "cc"
    objs = []
    for tu in range(prog.ntus):
        src = os.path.join(srcdir, "tu%d.%s" % (tu, ext))
        obj = os.path.join(d, "tu%d.o" % tu)
        argv = [cc, "-c", "-w", opt, "-fPIC" if kind != "exec-nopie" else "-fno-pie", "-o", obj, src]
        if debug and tu not in prog.tu_nodebug:
            argv[2:2] = ["-g", "-gdwarf-%d" % dwarf]
        if prog.lang == "c":
            argv[2:2] = ["-std=gnu11", "-fcommon" if any(v.common for v in prog.variables) else "-fno-common"]
        else:
            argv[2:2] = ["-std=gnu++14"]
            # By default both compilers leave a class as a mere declaration in translation units that "do not need" it
            # (clang: limited debug info; gcc: polymorphic classes only where the vtable goes).  What the analysed binary
            # then lacks is the compiler's choice, not the reader's: ask for complete class descriptions.
            argv[2:2] = ["-fstandalone-debug"] if family == "clang" else ["-femit-class-debug-always"]
        argv[2:2] = list(extra)
        _run(argv, d)
        objs.append(obj)
    if post_compile:
        post_compile(objs)
    if out is None:
        out = os.path.join(d, {"so": "lib.so", "exec": "prog", "rel": "lib.o"}[kind])
    ld = []
    if linker:
        ld.append("-fuse-ld=%s" % linker)
    if os.path.exists(os.path.join(srcdir, "version.map")) and kind == "so":
        ld.append("-Wl,--version-script=%s" % os.path.join(srcdir, "version.map"))
    if kind == "so":
        soname = prog.soname
        argv = [cc, "-shared", "-o", out] + objs + ld + list(ldextra)
        if soname:
            argv.append("-Wl,-soname,%s" % soname)
        _run(argv, d)
    elif kind == "exec":
        main = os.path.join(d, "main.%s" % ext)
        with open(main, "w") as fh:
            fh.write("int main(void) { return 0; }\n")
        _run([cc, "-pie", "-rdynamic", "-o", out, main] + objs + ld + list(ldextra), d)
    elif kind == "rel":
        _run(["ld", "-r", "-o", out] + objs, d)
    else:
        raise ValueError(kind)
    if strip_debug:
        _run(["strip", "--strip-debug", out], d)
    return out


def section_digest(path, sections=(".debug_info", ".text", ".data", ".dynsym", ".symtab")):
    """Digest of selected sections (used to decide that a mutation took effect)."""
    import hashlib
    h = hashlib.sha256()
    for k, sname in enumerate(sections):
        out = "%s.sec%d.%d" % (path, k, os.getpid())
        subprocess.run(["objcopy", "--dump-section", "%s=%s" % (sname, out), path, "/dev/null"],
                       stdout=subprocess.DEVNULL, stderr=subprocess.DEVNULL)
        h.update(sname.encode())
        try:
            with open(out, "rb") as fh:
                h.update(fh.read())
            os.unlink(out)
        except OSError:
            h.update(b"<absent>")
    return h.hexdigest()[:16]
