"""Grammar-based generator of (hostile) suppression specification / KMI whitelist files."""

SECTIONS = ["suppress_type", "suppress_function", "suppress_variable", "suppress_file", "allow_type"]
PROPS = {
    "suppress_type": ["name", "name_regexp", "name_not_regexp", "type_kind", "source_location_not_in", "source_location_not_regexp",
                      "accessed_through", "has_data_member_inserted_at", "has_data_member_inserted_between", "has_data_members_inserted_between",
                      "changed_enumerators", "file_name_regexp", "file_name_not_regexp", "soname_regexp", "soname_not_regexp", "label", "drop",
                      "has_data_member", "has_size_change"],
    "suppress_function": ["name", "name_regexp", "name_not_regexp", "symbol_name", "symbol_name_regexp", "symbol_name_not_regexp",
                          "symbol_version", "symbol_version_regexp", "return_type_name", "return_type_regexp", "parameter", "change_kind",
                          "allow_other_aliases", "file_name_regexp", "soname_regexp", "label", "drop"],
    "suppress_variable": ["name", "name_regexp", "name_not_regexp", "symbol_name", "symbol_name_regexp", "symbol_name_not_regexp",
                          "symbol_version", "symbol_version_regexp", "type_name", "type_name_regexp", "change_kind", "file_name_regexp",
                          "soname_regexp", "label", "drop"],
    "suppress_file": ["file_name_regexp", "file_name_not_regexp", "soname_regexp", "soname_not_regexp", "label"],
    "allow_type": ["name", "name_regexp"],
}
BAD_REGEX = ["[", "(", "a{", "*", "a**", "\\\\", "[[:alpha:", "(?", "a{2,1}", "[z-a]", ")", "+", "x{99999}", "(((((((((("]
GOOD_REGEX = ["^f_.*", ".*", "^s_[0-9a-f]+_[0-9]+$", "foo|bar", "^$", "[a-z]+", "v_.*_al"]
VALUES = ["", " ", "x", "yes", "no", "true", "1", "-1", "0", "99999999999999999999999", "-99999999999999999999", "0x10", "end",
          "struct", "class", "union", "enum", "typedef", "array", "pointer", "reference", "all", "function-subtype-change",
          "added-function", "deleted-function", "added-variable", "deleted-variable", "offset_of(m)", "offset_after(m)", "offset_of(",
          "offset_after()", "offset_of(a,b)", "offset_of)", "{", "}", "{}", "{a}", "{a, b}", "{{a, b}, {c, d}}", "{a,", "{[}", "{]}",
          "{=}", "{ {", "a, b", "a, b, c", ",", ",,", "a,,b", "'0 int", "'1 char*", "'x", "'", "'1", "'1 /regexp/", "'0 /[/",
          "\\", "a\\", "\\;", "\\#x", "a b c", "\t", "é", "\xff"]


def gen_value(rng, names):
    x = rng.random()
    if x < 0.25:
        return rng.choice(VALUES)
    if x < 0.40:
        return rng.choice(BAD_REGEX)
    if x < 0.55:
        return rng.choice(GOOD_REGEX)
    if x < 0.75 and names:
        return rng.choice(names)
    if x < 0.85:
        return "{%s, %s}" % (rng.choice(VALUES), rng.choice(VALUES))
    if x < 0.92:
        return "{{%s, %s}, {%s, %s}}" % tuple(rng.choice(["0", "8", "end", "offset_of(m)", "offset_after(m)", "-1", "x", "", "64"]) for _ in range(4))
    return "%s, %s" % (rng.choice(VALUES), rng.choice(names) if names else "z")


def gen_file(rng, names=()):
    names = list(names)
    out = []
    nsec = rng.choice([1, 1, 2, 3, 6])
    for s in range(nsec):
        x = rng.random()
        if x < 0.8:
            sec = rng.choice(SECTIONS)
        elif x < 0.9:
            sec = rng.choice(["suppress_typ", "", " suppress_type", "suppress_type ", "SUPPRESS_TYPE", "[", "a]b", "whitelist", "abi_whitelist"])
        else:
            sec = rng.choice(SECTIONS) + rng.choice(["]", "[", " x", ""])
        out.append("[%s]" % sec)
        props = PROPS.get(sec, PROPS["suppress_type"])
        for k in range(rng.choice([0, 1, 1, 2, 3, 5])):
            p = rng.choice(props) if rng.random() < 0.9 else rng.choice(["nme", "", "=", "name name", "name=", "x" * 300])
            style = rng.random()
            v = gen_value(rng, names)
            if style < 0.08:
                out.append("  %s" % p)                  # valueless property
            elif style < 0.14:
                out.append("  %s =" % p)                # empty value
            elif style < 0.18:
                out.append("  %s ? %s" % (p, v))
            elif style < 0.22:
                out.append("  %s = %s = %s" % (p, v, v))
            else:
                out.append("  %s = %s" % (p, v))
        if rng.random() < 0.1:
            out.append("; comment %s" % gen_value(rng, names))
        if rng.random() < 0.05:
            out.append("# [suppress_type]")
    text = "\n".join(out) + ("\n" if rng.random() < 0.9 else "")
    return text


def mutate_bytes(rng, data):
    data = bytearray(data)
    for _ in range(rng.choice([1, 1, 2, 4, 8])):
        if not data:
            data += bytes([rng.randrange(256)])
            continue
        op = rng.randrange(5)
        pos = rng.randrange(len(data))
        if op == 0:
            data[pos] = rng.randrange(256)
        elif op == 1:
            del data[pos]
        elif op == 2:
            data[pos:pos] = bytes([rng.choice(b"[]{}=,;#\\\n '\x00\xff")])
        elif op == 3:
            end = min(len(data), pos + rng.randrange(1, 20))
            data[pos:pos] = data[pos:end]
        else:
            del data[pos:]
    return bytes(data)


def gen_whitelist(rng, names=()):
    names = list(names)
    out = []
    for s in range(rng.choice([1, 1, 2, 3])):
        sec = rng.choice(["abi_whitelist", "abi_symbol_list", "x_whitelist", "x_symbol_list", "whitelist", "suppress_type", "", "a_whitelist]"])
        out.append("[%s]" % sec)
        for k in range(rng.choice([0, 1, 3, 8])):
            x = rng.random()
            if x < 0.6 and names:
                out.append("  " + rng.choice(names))
            elif x < 0.8:
                out.append("  " + rng.choice(VALUES + BAD_REGEX))
            else:
                out.append("  %s = %s" % (rng.choice(names) if names else "a", rng.choice(VALUES)))
    return "\n".join(out) + "\n"
