"""./check --setup: offline self-test of the framework (compiles nothing from /repo)."""
import compileall
import os
import shutil
import sys

NEEDED = ["gcc", "g++", "clang", "clang++-14", "ld.bfd", "ld.lld", "readelf", "objcopy", "strip",
          "setarch", "python3", "make", "ar", "tar"]


def main():
    here = os.path.dirname(os.path.abspath(__file__))
    ok = compileall.compile_dir(here, quiet=1)
    missing = [t for t in NEEDED if not shutil.which(t)]
    if missing:
        print("setup: missing tools: %s" % " ".join(missing))
        return 1
    if not ok:
        print("setup: byte-compilation failed")
        return 1
    from . import selftest
    rc = selftest.main()
    print("setup: %s" % ("ok" if rc == 0 else "FAILED"))
    return rc
