"""Process runner + termination classifier (the "execution monitor").

Every tool / harness execution of every check goes through run(); the result
carries the exit status or signal, the outputs and a *classification* of
abnormal terminations into stable keys (function + condition, sanitizer kind +
first libabigail frame), never line numbers.
"""
import os
import re
import signal
import subprocess
import time

BASE_ENV = {
    "LC_ALL": "C", "LANG": "C", "SOURCE_DATE_EPOCH": "1600000000",
    "PATH": os.environ.get("PATH", "/usr/bin:/bin"),
    "ASAN_OPTIONS": "detect_leaks=0:handle_abort=1:abort_on_error=0:exitcode=99:"
                    "allocator_may_return_null=1:detect_stack_use_after_return=0:"
                    "symbolize=1:malloc_context_size=5",
    "UBSAN_OPTIONS": "print_stacktrace=1:halt_on_error=1:exitcode=98",
    "TSAN_OPTIONS": "halt_on_error=0:exitcode=97:second_deadlock_stack=1",
}

SIGNAMES = {getattr(signal, n): n for n in dir(signal)
            if n.startswith("SIG") and not n.startswith("SIG_")}


class Result(object):
    __slots__ = ("argv", "rc", "sig", "out", "err", "wall", "timeout", "kind", "key", "env")

    def __init__(self):
        self.kind = "exit"
        self.key = None
        self.timeout = False
        self.sig = None

    @property
    def stdout(self):
        return self.out.decode("utf-8", "replace")

    @property
    def stderr(self):
        return self.err.decode("utf-8", "replace")

    def brief(self):
        return {"argv": self.argv, "rc": self.rc, "sig": self.sig, "kind": self.kind,
                "key": self.key, "wall": round(self.wall, 3),
                "stdout": self.stdout[:1500], "stderr": self.stderr[:3000]}


_FRAME_RE = re.compile(r"^\s*#(\d+)\s+0x[0-9a-f]+\s+(?:in\s+)?(.*?)(?:\s+(\S+:\d+(?::\d+)?))?(?:\s+\(.*\))?\s*$")
_SKIP_FRAME = re.compile(r"^(__interceptor_|__asan|__sanitizer|__ubsan|__tsan|operator new|operator delete|"
                         r"std::|__gnu_cxx::|__cxa|_Unwind|abort|raise|__GI_|__assert|__libc|_start|gsignal|"
                         r"__glibcxx_assert|malloc|free|calloc|realloc|memcpy|memmove|strlen|strcmp|__pthread|"
                         r"void std::|bool std::|__static_init|_GLOBAL__)")


def _clean_fn(fn):
    """Strip argument lists / template args / return types so the name is stable."""
    fn = fn.strip()
    # drop trailing source location remnants
    fn = re.sub(r"\s+/\S+$", "", fn)
    # drop arguments
    depth = 0
    out = []
    for ch in fn:
        if ch in "(<":
            depth += 1
        elif ch in ")>":
            depth -= 1
        elif depth == 0:
            out.append(ch)
    s = "".join(out).strip()
    s = s.split(" ")[-1] if " " in s and not s.startswith("operator") else s
    return s or fn[:60]


def frames(text):
    fr = []
    for line in text.splitlines():
        m = _FRAME_RE.match(line)
        if m:
            fr.append((m.group(2) or "", m.group(3) or ""))
    return fr


def first_abigail_frame(text, stack_only_first=True):
    """First frame that belongs to libabigail or its tools (by namespace or path).
    Returns (function, 'abigail'|'elfutils'|'libxml2'|'other')."""
    first_lib = None
    seen_stack = False
    for fn, loc in frames(text):
        seen_stack = True
        f = fn.strip()
        if not f or _SKIP_FRAME.match(f):
            continue
        if "abigail" in f or "/repo/" in loc or "/harness/" in loc or loc.startswith("/repo") \
                or re.search(r"(tools|src)/ab[gi][^/]*\.cc", loc) or f == "main" or "binilint" in loc:
            return _clean_fn(f), "abigail"
        if first_lib is None:
            if re.match(r"(dwarf_|dwfl_|elf_|elf32_|elf64_|gelf_|__libdw|__libelf|dwelf_)", f) or "libdw" in loc or "libelf" in loc:
                first_lib = (_clean_fn(f), "elfutils")
            elif re.match(r"xml[A-Z]", f) or "libxml2" in loc:
                first_lib = (_clean_fn(f), "libxml2")
    if first_lib:
        # keep scanning happened already; no abigail frame found at all
        return first_lib
    return ("?", "other" if seen_stack else "nostack")


def first_abigail_after(text):
    """Like first_abigail_frame but returns the first abigail frame even if library frames precede it,
    plus whether the innermost non-runtime frame was in a library."""
    inner = None
    for fn, loc in frames(text):
        f = fn.strip()
        if not f or _SKIP_FRAME.match(f):
            continue
        isab = ("abigail" in f or "/repo/" in loc or f == "main")
        if inner is None:
            if isab:
                return _clean_fn(f), "abigail"
            if re.match(r"(dwarf_|dwfl_|elf_|elf32_|elf64_|gelf_|__libdw|__libelf|dwelf_)", f):
                inner = "elfutils"
            elif re.match(r"xml[A-Z]", f):
                inner = "libxml2"
            else:
                inner = "other"
        elif isab:
            return _clean_fn(f), inner
    return "?", inner or "nostack"


def classify(res):
    """Set res.kind / res.key for abnormal terminations."""
    err = res.stderr
    if res.timeout:
        res.kind = "timeout"
        res.key = "timeout"
        return res
    m = re.search(r"VERIF-ABG-ASSERT function=(\S+) cond=(.*)", err)
    if m:
        res.kind = "assert"
        res.key = "assert:%s:%s" % (m.group(1), re.sub(r"\s+", "", m.group(2))[:80])
        return res
    m = re.search(r"in (\S+) at: \S+: execution should not have reached this point", err)
    if m:
        res.kind = "assert"
        res.key = "assert:%s:not-reached" % m.group(1)
        return res
    m = re.search(r"ERROR: AddressSanitizer: (\S+)", err)
    if m and m.group(1) not in ("ABRT",):
        kind = m.group(1)
        fn, where = first_abigail_after(err[m.start():])
        res.kind = "sanitizer"
        if kind == "SEGV":
            mm = re.search(r"The signal is caused by a (\w+) memory access", err)
            if "address 0x000000000" in err and re.search(r"unknown address 0x0000000000[0-9a-f]{2}\b", err):
                kind = "SEGV-null"
        if kind == "stack-overflow":
            res.key = "san:stack-overflow:%s" % fn
        else:
            res.key = "san:%s:%s" % (kind, fn)
        if where in ("elfutils", "libxml2"):
            res.key += "@" + where
        return res
    m = re.search(r"(\S+?):\d+:\d+: runtime error: (.*)", err)
    if m:
        msg = m.group(2)
        msg = re.sub(r"0x[0-9a-f]+", "ADDR", msg)
        msg = re.sub(r"-?\d+", "N", msg)
        fn, where = first_abigail_after(err[m.start():])
        res.kind = "sanitizer"
        res.key = "san:ubsan:%s:%s" % (fn if fn != "?" else os.path.basename(m.group(1)), msg[:70].strip())
        return res
    m = re.search(r"WARNING: ThreadSanitizer: (.+?) \(pid", err)
    if m:
        res.kind = "sanitizer"
        res.key = "san:tsan:" + m.group(1).strip().replace(" ", "-")
        return res
    m = re.search(r"terminate called after throwing an instance of '([^']+)'", err)
    if m:
        fn, where = first_abigail_after(err)
        res.kind = "assert"
        res.key = "terminate:%s:%s" % (m.group(1), fn)
        return res
    m = re.search(r"Assertion '([^']*)' failed", err) or re.search(r"Assertion `([^']*)' failed", err)
    if m:
        fn, where = first_abigail_after(err)
        res.kind = "assert"
        cond = re.sub(r"\s+", "", m.group(1))[:60]
        res.key = "glibc-assert:%s:%s" % (fn, cond)
        return res
    if "AddressSanitizer: ABRT" in err or res.sig == signal.SIGABRT:
        fn, where = first_abigail_after(err)
        res.kind = "assert"
        res.key = "abort:%s" % fn
        return res
    if res.sig is not None:
        res.kind = "signal"
        res.key = "sig:%s" % SIGNAMES.get(res.sig, str(res.sig))
        return res
    if res.rc in (97, 98, 99):
        res.kind = "sanitizer"
        res.key = "san:unparsed:rc%d" % res.rc
        return res
    return res


def run(argv, cwd=None, env=None, timeout=60, stdin=None, home=None, classify_it=True):
    """Run argv; never raises on failure of the child."""
    e = dict(BASE_ENV)
    if home:
        e["HOME"] = home
    else:
        e["HOME"] = "/nonexistent-verif-home"
    if cwd:
        e["TMPDIR"] = cwd
    if env:
        for k, v in env.items():
            if v is None:
                e.pop(k, None)
            else:
                e[k] = v
    r = Result()
    r.argv = [str(a) for a in argv]
    r.env = env or {}
    t0 = time.time()
    try:
        p = subprocess.Popen(r.argv, cwd=cwd, env=e, stdin=subprocess.PIPE if stdin is not None else subprocess.DEVNULL,
                             stdout=subprocess.PIPE, stderr=subprocess.PIPE, start_new_session=True)
    except OSError as ex:
        r.rc, r.out, r.err, r.wall = 127, b"", str(ex).encode(), 0.0
        r.kind = "spawn-error"
        r.key = "spawn-error"
        return r
    try:
        out, err = p.communicate(stdin, timeout=timeout)
    except subprocess.TimeoutExpired:
        r.timeout = True
        try:
            os.killpg(p.pid, signal.SIGKILL)
        except OSError:
            pass
        out, err = p.communicate()
    r.wall = time.time() - t0
    r.out, r.err = out, err
    rc = p.returncode
    if rc < 0:
        r.sig = -rc
        r.rc = None
    else:
        r.rc = rc
    if classify_it:
        classify(r)
        if r.key:
            r.key = r.key.replace(" ", "_")     # keys are single tokens (known_findings.txt is space separated)
    return r


def abnormal(r):
    """True when the process did not end by a plain exit()."""
    return r.kind in ("signal", "sanitizer", "assert", "timeout", "spawn-error")
