#!/bin/bash
# usage: tools/try_seeded.sh <dir with patch.diff demo.sh> <check ids...>
# Applies the patch to /repo, runs the repository's test-suite, the demonstration and the given checks, then restores /repo.
D=$1; shift
cd /repo || exit 2
git diff --quiet -- src include tools || { echo "REPO NOT CLEAN"; exit 2; }
git apply "$D/patch.diff" || { echo "PATCH DOES NOT APPLY"; exit 2; }
trap 'cd /repo; git checkout -- src include tools; echo "[restored /repo]"' EXIT
echo "== in-tree build + test-suite with the patch"
make -j16 > /tmp/seeded_make.log 2>&1 || { echo "IN-TREE BUILD FAILED"; tail -5 /tmp/seeded_make.log; exit 1; }
make -k check -j16 > /tmp/seeded_check.log 2>&1
echo "test-suite: $(grep -c '^PASS' /tmp/seeded_check.log) PASS, $(grep -c '^FAIL' /tmp/seeded_check.log) FAIL: $(grep '^FAIL' /tmp/seeded_check.log | sort | tr '\n' ' ')"
cd /verif
B=$(python3 vf/build.py plain 2>/dev/null | tail -1)
echo "== demo with the patch (must fail)"
(cd "$D" && ABG_INC=/repo/include ABG_LIB=$B/libabigail.a bash ./demo.sh $B/bin > /tmp/seeded_demo_patched.log 2>&1; echo "demo exit=$?")
tail -3 /tmp/seeded_demo_patched.log | cut -c1-200
for id in "$@"; do
  echo "== check $id with the patch"
  out=$(./check $id --tier quick 2>&1); rc=$?
  echo "rc=$rc"; echo "$out" | grep -E '^VIOLATION|violation-detail|verdict=' | cut -c1-260 | head -8
done
cd /repo; git checkout -- src include tools; trap - EXIT; echo "[restored /repo]"
cd /verif
B=$(python3 vf/build.py plain 2>/dev/null | tail -1)
echo "== demo without the patch (must pass)"
(cd "$D" && ABG_INC=/repo/include ABG_LIB=$B/libabigail.a bash ./demo.sh $B/bin > /tmp/seeded_demo_clean.log 2>&1; echo "demo exit=$?")
