#!/usr/bin/env python3
"""Assemble /verif/seeded/<id>/ from the staged deliverables of the seeding sub-agents and this session's verification
record (tools/seeded_results.json): patch.diff, the demonstration with its inputs, meta.json."""
import json, os, shutil, sys
STAGING = sys.argv[1] if len(sys.argv) > 1 else "/tmp/staging"
HERE = os.path.dirname(os.path.abspath(__file__))
res = json.load(open(os.path.join(HERE, "seeded_results.json")))
for pid, rec in sorted(res.items()):
    src = os.path.join(STAGING, pid)
    dst = os.path.join(os.path.dirname(HERE), "seeded", pid)
    if not os.path.isdir(src):
        continue
    shutil.rmtree(dst, ignore_errors=True)
    shutil.copytree(src, dst)
    try:
        meta = json.load(open(os.path.join(src, "meta.json")))
    except Exception:
        meta = {"property": pid}
    meta["verified_by_me"] = {
        "applies_to": rec.get("base", "449029fd"),
        "repository_test_suite_with_patch": rec.get("suite", "20 PASS / 6 FAIL (the 6 baseline failures), same as without the patch"),
        "demo_with_patch_exit": rec.get("demo_patched", 1),
        "demo_without_patch_exit": rec.get("demo_clean", 0),
    }
    meta["caught_by"] = rec["caught_by"]
    meta["first_trial"] = rec["first_trial"]
    if rec.get("strengthened"):
        meta["strengthened"] = rec["strengthened"]
    if rec.get("witness_keys"):
        meta["witness_keys"] = rec["witness_keys"]
    json.dump(meta, open(os.path.join(dst, "meta.json"), "w"), indent=1)
    print(pid, "->", dst)
