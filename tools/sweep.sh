#!/bin/bash
# usage: tools/sweep.sh <seed> [tier] [ids...]   - runs checks sequentially, one summary line each
seed=${1:-1}; tier=${2:-quick}; shift 2
ids=${@:-$(python3 -c "import json;print(' '.join(c['property_id'] for c in json.load(open('/verif/MANIFEST.json'))['checks']))")}
cd /verif
for id in $ids; do
  out=$(VERIF_SEED=$seed ./check $id --tier $tier 2>&1); rc=$?
  echo "rc=$rc $(echo "$out" | grep -E 'verdict=' | tail -1)"
  echo "$out" | grep -E '^VIOLATION|violation-detail|HARNESS' | cut -c1-300
done
