#!/usr/bin/env python3
"""Prints candidate 'known:' lines for the new violation keys of the last run of a check (to be REVIEWED and
appended to known_findings.txt by hand; the checks never write that file)."""
import json, sys, glob, os
prop = sys.argv[1]
ev = json.load(open("/verif/evidence/%s.json" % prop))
keys = ev["coverage"]["new_violation_keys"]
what = {}
for f in glob.glob("/verif/replays/%s/*/case.json" % prop):
    d = json.load(open(f))
    what[d["key"]] = d["what"]
for k in keys:
    print("known: property=%s key=%s %s" % (prop, k, what.get(k, "")[:200].replace("\n", " ")))
